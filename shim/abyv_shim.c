/* LD_PRELOAD interposer for the abyssiniandb checks: a "device" at the system-call boundary of the
 * unmodified code. It (a) logs write / pwrite64 / ftruncate / fsync / fdatasync on files below the
 * scratch directory, and (b) can be armed to refuse the k-th write from now on (ENOSPC, or a short
 * write of half the bytes followed by ENOSPC), until disarmed.
 * Built by ./check:  gcc -O2 -shared -fPIC -o abyv_shim.so abyv_shim.c -ldl */
#define _GNU_SOURCE
#include <dlfcn.h>
#include <errno.h>
#include <stdio.h>
#include <stdlib.h>
#include <string.h>
#include <unistd.h>
#include <sys/types.h>

struct abyv_entry { int op; int pad; long long off; long long len; char name[48]; };
/* op: 0 write, 1 pwrite, 2 ftruncate, 3 fsync, 4 fdatasync, +16 = refused by the injector */

static struct abyv_entry *g_log = 0;
static long g_log_n = 0, g_log_cap = 0;
static long g_fail_at = 0;  /* refuse the k-th matching write counted from arming (1-based); 0 = disarmed */
static int  g_mode = 0;     /* 0: ENOSPC; 1: short write (half) then ENOSPC; 2: file-size limit (RLIMIT_FSIZE like): from the
                               k-th write on, every write that would end beyond that write's start offset is refused */
static long long g_limit = -1;
static long g_count = 0;    /* matching writes since arming */
static int  g_sticky = 0;   /* once refused, keep refusing until disarmed */
static long g_refused = 0;

static const char *match(int fd, char *buf, size_t n) {
    char link[64];
    snprintf(link, sizeof link, "/proc/self/fd/%d", fd);
    ssize_t r = readlink(link, buf, n - 1);
    if (r < 0) return 0;
    buf[r] = 0;
    if (!strstr(buf, "/abyv.")) return 0;
    const char *base = strrchr(buf, '/');
    return base ? base + 1 : buf;
}

static void log_add(int op, const char *name, long long off, long long len) {
    if (g_log_n == g_log_cap) {
        long cap = g_log_cap ? g_log_cap * 2 : 1024;
        struct abyv_entry *p = realloc(g_log, cap * sizeof *p);
        if (!p) return;
        g_log = p; g_log_cap = cap;
    }
    struct abyv_entry *e = &g_log[g_log_n++];
    e->op = op; e->pad = 0; e->off = off; e->len = len;
    strncpy(e->name, name, sizeof e->name - 1); e->name[sizeof e->name - 1] = 0;
}

/* control: 0 disarm | 1 arm (arg = k) | 2 set mode | 3 log length | 4 clear log | 5 writes since arming | 6 refused count | 7 present? */
long abyv_ctl(int cmd, long arg) {
    switch (cmd) {
    case 0: g_fail_at = 0; g_sticky = 0; g_limit = -1; return 0;
    case 1: g_fail_at = arg; g_count = 0; g_sticky = 0; g_refused = 0; g_limit = -1; return 0;
    case 2: g_mode = (int)arg; return 0;
    case 3: return g_log_n;
    case 4: g_log_n = 0; return 0;
    case 5: return g_count;
    case 6: return g_refused;
    case 7: return 4711;
    }
    return -1;
}

int abyv_log_get(long i, struct abyv_entry *out) {
    if (i < 0 || i >= g_log_n) return -1;
    *out = g_log[i];
    return 0;
}

static int inject(const char *name, int op, long long off, size_t n, size_t *allowed) {
    /* returns 1 if the write must be refused entirely, 2 if it must be shortened to *allowed */
    if (g_mode == 2) {
        if (g_limit >= 0) {
            if (off + (long long)n > g_limit) { g_refused++; log_add(op + 16, name, off, (long long)n); return 1; }
            return 0;
        }
        if (g_fail_at) {
            g_count++;
            if (g_count == g_fail_at) { g_limit = off; g_refused++; log_add(op + 16, name, off, (long long)n); return 1; }
        }
        return 0;
    }
    if (g_sticky) { g_refused++; log_add(op + 16, name, off, (long long)n); return 1; }
    if (g_fail_at) {
        g_count++;
        if (g_count == g_fail_at) {
            g_sticky = 1; g_refused++;
            if (g_mode == 1 && n > 1) { *allowed = n / 2; return 2; }
            log_add(op + 16, name, off, (long long)n);
            return 1;
        }
    }
    return 0;
}

ssize_t write(int fd, const void *b, size_t n) {
    static ssize_t (*real)(int, const void *, size_t);
    if (!real) real = dlsym(RTLD_NEXT, "write");
    char path[512];
    const char *name = fd > 2 ? match(fd, path, sizeof path) : 0;
    if (name) {
        long long off = (long long)lseek(fd, 0, SEEK_CUR);
        size_t allowed = n;
        int inj = inject(name, 0, off, n, &allowed);
        if (inj == 1) { errno = ENOSPC; return -1; }
        if (inj == 2) { ssize_t r = real(fd, b, allowed); log_add(0, name, off, (long long)r); return r; }
        ssize_t r = real(fd, b, n);
        log_add(0, name, off, (long long)r);
        return r;
    }
    return real(fd, b, n);
}

ssize_t pwrite64(int fd, const void *b, size_t n, off_t off) {
    static ssize_t (*real)(int, const void *, size_t, off_t);
    if (!real) real = dlsym(RTLD_NEXT, "pwrite64");
    char path[512];
    const char *name = fd > 2 ? match(fd, path, sizeof path) : 0;
    if (name) {
        size_t allowed = n;
        int inj = inject(name, 1, (long long)off, n, &allowed);
        if (inj == 1) { errno = ENOSPC; return -1; }
        ssize_t r = real(fd, b, inj == 2 ? allowed : n, off);
        log_add(1, name, (long long)off, (long long)r);
        return r;
    }
    return real(fd, b, n, off);
}

int ftruncate64(int fd, off_t len) {
    static int (*real)(int, off_t);
    if (!real) real = dlsym(RTLD_NEXT, "ftruncate64");
    char path[512];
    const char *name = fd > 2 ? match(fd, path, sizeof path) : 0;
    if (name) log_add(2, name, 0, (long long)len);
    return real(fd, len);
}

int ftruncate(int fd, off_t len) {
    static int (*real)(int, off_t);
    if (!real) real = dlsym(RTLD_NEXT, "ftruncate");
    char path[512];
    const char *name = fd > 2 ? match(fd, path, sizeof path) : 0;
    if (name) log_add(2, name, 0, (long long)len);
    return real(fd, len);
}

int fsync(int fd) {
    static int (*real)(int);
    if (!real) real = dlsym(RTLD_NEXT, "fsync");
    char path[512];
    const char *name = fd > 2 ? match(fd, path, sizeof path) : 0;
    if (name) log_add(3, name, 0, 0);
    return real(fd);
}

int fdatasync(int fd) {
    static int (*real)(int);
    if (!real) real = dlsym(RTLD_NEXT, "fdatasync");
    char path[512];
    const char *name = fd > 2 ? match(fd, path, sizeof path) : 0;
    if (name) log_add(4, name, 0, 0);
    return real(fd);
}
