//! Independent decoder of the on-disk format (.htx / .key / .val).
//!
//! Written from the layout comments of the crate's documentation; shares no code with
//! abyssiniandb, rabuf or vu64 (own vu64 codec, own placement hash). Never panics: every
//! access is bounds checked and every inconsistency is reported as (Clause, message).
#![allow(dead_code)]

use std::collections::{BTreeMap, HashMap, HashSet};

pub const CLASSES: [u32; 16] = [
    16, 24, 32, 48, 64, 80, 96, 112, 128, 256, 384, 512, 640, 768, 896, 1024,
];
pub const HTX_HEADER: u64 = 128;
pub const DAT_HEADER: u64 = 192;
pub const KEY_FREE_BASE: usize = 48;
pub const VAL_FREE_BASE: usize = 32;

#[derive(Clone, Copy, PartialEq, Eq, Debug, Hash, PartialOrd, Ord)]
pub enum Clause {
    Header,
    HtxSize,
    Tiling,
    FreeList,
    Partition,
    Chain,
    Placement,
    DupKey,
    ValueRef,
    Overflow,
    Padding,
    Count,
    Bitmap,
}

impl Clause {
    pub fn name(&self) -> &'static str {
        match self {
            Clause::Header => "header",
            Clause::HtxSize => "htx-size",
            Clause::Tiling => "tiling",
            Clause::FreeList => "free-list",
            Clause::Partition => "partition",
            Clause::Chain => "chain",
            Clause::Placement => "placement",
            Clause::DupKey => "dup-key",
            Clause::ValueRef => "value-ref",
            Clause::Overflow => "overflow",
            Clause::Padding => "padding",
            Clause::Count => "count",
            Clause::Bitmap => "bitmap",
        }
    }
    pub const ALL: [Clause; 13] = [
        Clause::Header,
        Clause::HtxSize,
        Clause::Tiling,
        Clause::FreeList,
        Clause::Partition,
        Clause::Chain,
        Clause::Placement,
        Clause::DupKey,
        Clause::ValueRef,
        Clause::Overflow,
        Clause::Padding,
        Clause::Count,
        Clause::Bitmap,
    ];
}

// ---------------------------------------------------------------------------------------------
// vu64: the number of leading one bits of the first byte is the number of following bytes;
// the remaining low bits of the first byte are the low bits of the value, the following bytes
// continue little endian.

pub fn vu_decode(b: &[u8], o: usize) -> Option<(u64, usize)> {
    let f = *b.get(o)?;
    let follow = f.leading_ones() as usize;
    let n = follow + 1;
    if o + n > b.len() {
        return None;
    }
    if n == 1 {
        return Some((f as u64, 1));
    }
    let mut rest: u64 = 0;
    for i in 0..follow {
        rest |= (b[o + 1 + i] as u64) << (8 * i);
    }
    if n == 9 {
        return Some((rest, 9));
    }
    if n == 8 {
        return Some((rest, 8));
    }
    let low_bits = 8 - n;
    let low = (f as u64) & ((1u64 << low_bits) - 1);
    Some((low | (rest << low_bits), n))
}

pub fn vu_len(v: u64) -> u32 {
    // 7 payload bits per encoded byte up to 8 bytes, 9 bytes for the rest
    for n in 1..=8u32 {
        if v < (1u64 << (7 * n)) {
            return n;
        }
    }
    9
}

pub fn vu_encode(v: u64) -> Vec<u8> {
    let n = vu_len(v) as usize;
    let mut out = Vec::with_capacity(n);
    if n == 1 {
        out.push(v as u8);
        return out;
    }
    if n == 9 {
        out.push(0xff);
        out.extend_from_slice(&v.to_le_bytes());
        return out;
    }
    if n == 8 {
        out.push(0xfe);
        out.extend_from_slice(&v.to_le_bytes()[..7]);
        return out;
    }
    let low_bits = 8 - n;
    let prefix: u8 = !((1u16 << (low_bits + 1)) - 1) as u8; // (n-1) leading ones, then a zero
    let first = prefix | ((v & ((1u64 << low_bits) - 1)) as u8);
    out.push(first);
    let rest = v >> low_bits;
    out.extend_from_slice(&rest.to_le_bytes()[..n - 1]);
    out
}

// ---------------------------------------------------------------------------------------------
// placement hash: the key's length as 8 native-endian bytes, then the key bytes, each folded
// 8 bytes at a time big endian through  x += a; x ^= x>>12; x ^= x<<25; x ^= x>>27.

fn mix(mut x: u64) -> u64 {
    x ^= x >> 12;
    x ^= x << 25;
    x ^= x >> 27;
    x
}

fn fold(mut st: u64, bytes: &[u8]) -> u64 {
    for c in bytes.chunks(8) {
        let mut a: u64 = 0;
        for b in c {
            a = (a << 8) | *b as u64;
        }
        st = mix(st.wrapping_add(a));
    }
    st
}

pub fn place_hash(key: &[u8]) -> u64 {
    let st = fold(0, &(key.len() as u64).to_ne_bytes());
    fold(st, key)
}

// ---------------------------------------------------------------------------------------------

#[derive(Clone, Debug)]
pub struct SlotInfo {
    pub size: u32,
    /// the length field following the size field (0 for a free slot)
    pub len: u64,
    /// bytes of the size field + the length field
    pub hdr: usize,
}

#[derive(Default, Debug)]
pub struct FileDec {
    pub file_len: u64,
    pub slots: BTreeMap<u64, SlotInfo>,
    pub tiling_ok: bool,
    /// the 16 free lists in list order
    pub free: Vec<Vec<u64>>,
    pub free_set: HashMap<u64, usize>,
}

#[derive(Clone, Debug)]
pub struct LiveKey {
    pub off: u64,
    pub size: u32,
    pub key: Vec<u8>,
    pub val_off: u64,
    pub next: u64,
    pub bucket: u64,
    pub pos: usize,
    pub val_size: u32,
    pub val_len: u64,
    /// bytes the key record really occupies (size field .. end of next offset)
    pub enc_len: u32,
}

#[derive(Default, Debug)]
pub struct Decoded {
    pub n: u64,
    pub count: u64,
    pub sig2: [[u8; 8]; 3],
    pub nonempty: u64,
    pub contents: BTreeMap<Vec<u8>, Vec<u8>>,
    pub live: Vec<LiveKey>,
    pub keyf: FileDec,
    pub valf: FileDec,
    pub errors: Vec<(Clause, String)>,
    pub max_chain: usize,
}

impl Decoded {
    pub fn ok(&self) -> bool {
        self.errors.is_empty()
    }
    pub fn has(&self, c: &[Clause]) -> Option<&(Clause, String)> {
        self.errors.iter().find(|e| c.contains(&e.0))
    }
    /// free slot count per class, as the statistics calls report them
    pub fn free_counts(&self, key: bool) -> Vec<(u32, u64)> {
        let f = if key { &self.keyf } else { &self.valf };
        CLASSES
            .iter()
            .enumerate()
            .map(|(i, c)| (*c, f.free.get(i).map(|l| l.len() as u64).unwrap_or(0)))
            .collect()
    }
    pub fn key_size_hist(&self) -> Vec<(u64, u64)> {
        hist(self.live.iter().filter(|k| !k.key.is_empty()).map(|k| k.size as u64))
    }
    pub fn key_len_hist(&self) -> Vec<(u64, u64)> {
        hist(self.live.iter().filter(|k| !k.key.is_empty()).map(|k| k.key.len() as u64))
    }
    pub fn val_size_hist(&self) -> Vec<(u64, u64)> {
        hist(self.live.iter().filter(|k| k.val_len > 0).map(|k| k.val_size as u64))
    }
    pub fn val_len_hist(&self) -> Vec<(u64, u64)> {
        hist(self.live.iter().filter(|k| k.val_len > 0).map(|k| k.val_len))
    }
}

fn hist<I: Iterator<Item = u64>>(it: I) -> Vec<(u64, u64)> {
    let mut m: BTreeMap<u64, u64> = BTreeMap::new();
    for x in it {
        *m.entry(x).or_insert(0) += 1;
    }
    m.into_iter().collect()
}

fn u64_at(b: &[u8], o: usize) -> Option<u64> {
    if o + 8 > b.len() {
        return None;
    }
    let mut a = [0u8; 8];
    a.copy_from_slice(&b[o..o + 8]);
    Some(u64::from_le_bytes(a))
}

pub fn legal_slot_size(sz: u64) -> bool {
    sz > 0 && (CLASSES.contains(&(sz as u32)) && sz <= 1024 || (sz >= 1024 && sz % 128 == 0))
}

fn tiling(f: &[u8], what: &str, errs: &mut Vec<(Clause, String)>) -> FileDec {
    let mut d = FileDec {
        file_len: f.len() as u64,
        tiling_ok: true,
        ..Default::default()
    };
    let mut o = DAT_HEADER as usize;
    if f.len() < o {
        errs.push((Clause::Header, format!("{what}: file shorter than its header ({})", f.len())));
        d.tiling_ok = false;
        return d;
    }
    while o < f.len() {
        let (szu, l1) = match vu_decode(f, o) {
            Some(x) => x,
            None => {
                errs.push((Clause::Tiling, format!("{what}: size field at {o} runs past the end")));
                d.tiling_ok = false;
                break;
            }
        };
        let sz = szu.saturating_mul(8);
        let (ln, l2) = match vu_decode(f, o + l1) {
            Some(x) => x,
            None => {
                errs.push((Clause::Tiling, format!("{what}: length field at {} runs past the end", o + l1)));
                d.tiling_ok = false;
                break;
            }
        };
        if !legal_slot_size(sz) {
            errs.push((Clause::Tiling, format!("{what}: slot at {o} has illegal size {sz}")));
            d.tiling_ok = false;
            break;
        }
        if o as u64 + sz > f.len() as u64 {
            errs.push((
                Clause::Tiling,
                format!("{what}: slot at {o} of size {sz} ends after the end of file {}", f.len()),
            ));
            d.tiling_ok = false;
            break;
        }
        d.slots.insert(o as u64, SlotInfo { size: sz as u32, len: ln, hdr: l1 + l2 });
        o += sz as usize;
    }
    d
}

fn free_lists(f: &[u8], base: usize, what: &str, d: &mut FileDec, errs: &mut Vec<(Clause, String)>) {
    d.free = vec![Vec::new(); 16];
    for (i, cls) in CLASSES.iter().enumerate() {
        let mut o = match u64_at(f, base + 8 * i) {
            Some(x) => x,
            None => {
                errs.push((Clause::Header, format!("{what}: free list head {i} missing")));
                return;
            }
        };
        let mut steps = 0usize;
        while o != 0 {
            steps += 1;
            if steps > 10_000_000 {
                errs.push((Clause::FreeList, format!("{what}: free list of class {cls} does not end")));
                break;
            }
            if d.free_set.contains_key(&o) {
                errs.push((
                    Clause::FreeList,
                    format!("{what}: slot {o} is on a free list twice (class {cls}): cycle or double membership"),
                ));
                break;
            }
            let (sz, ln, hdr) = if d.tiling_ok {
                match d.slots.get(&o) {
                    Some(s) => (s.size as u64, s.len, s.hdr),
                    None => {
                        errs.push((Clause::FreeList, format!("{what}: free list of class {cls} points to {o}, not a slot start")));
                        break;
                    }
                }
            } else {
                let (szu, l1) = match vu_decode(f, o as usize) {
                    Some(x) => x,
                    None => {
                        errs.push((Clause::FreeList, format!("{what}: free list of class {cls} points outside the file ({o})")));
                        break;
                    }
                };
                let (ln, l2) = match vu_decode(f, o as usize + l1) {
                    Some(x) => x,
                    None => {
                        errs.push((Clause::FreeList, format!("{what}: free slot {o} truncated")));
                        break;
                    }
                };
                (szu * 8, ln, l1 + l2)
            };
            if ln != 0 {
                errs.push((Clause::FreeList, format!("{what}: free slot {o} (class {cls}) has length marker {ln}, not 0")));
                break;
            }
            if (i < 15 && sz != *cls as u64) || (i == 15 && sz < 1024) {
                errs.push((Clause::FreeList, format!("{what}: slot {o} of size {sz} is on the free list of class {cls}")));
            }
            let next = match u64_at(f, o as usize + hdr) {
                Some(x) => x,
                None => {
                    errs.push((Clause::FreeList, format!("{what}: free slot {o} truncated (next pointer)")));
                    break;
                }
            };
            let pad_from = o as usize + hdr + 8;
            let pad_to = (o + sz) as usize;
            if pad_to <= f.len() && pad_from <= pad_to && f[pad_from..pad_to].iter().any(|x| *x != 0) {
                errs.push((Clause::Padding, format!("{what}: free slot {o} has non-zero bytes after its link")));
            }
            d.free_set.insert(o, i);
            d.free[i].push(o);
            o = next;
        }
    }
}

struct KeyRec {
    size: u64,
    key_lo: usize,
    key_hi: usize,
    val_off: u64,
    next: u64,
    end: usize,
}

fn parse_key_rec(f: &[u8], o: usize) -> Option<KeyRec> {
    let (szu, l1) = vu_decode(f, o)?;
    let (kl, l2) = vu_decode(f, o + l1)?;
    let key_lo = o + l1 + l2;
    let key_hi = key_lo.checked_add(kl as usize)?;
    if key_hi > f.len() {
        return None;
    }
    let (vo, l3) = vu_decode(f, key_hi)?;
    let (nx, l4) = vu_decode(f, key_hi + l3)?;
    Some(KeyRec {
        size: szu.saturating_mul(8),
        key_lo,
        key_hi,
        val_off: vo.saturating_mul(8),
        next: nx.saturating_mul(8),
        end: key_hi + l3 + l4,
    })
}

pub fn decode(htx: &[u8], key: &[u8], val: &[u8]) -> Decoded {
    let mut d = Decoded::default();
    let mut errs: Vec<(Clause, String)> = Vec::new();
    // headers
    if htx.len() < HTX_HEADER as usize || &htx[..8] != b"abysdbH\0" {
        errs.push((Clause::Header, "htx: bad signature1 or short header".into()));
        d.errors = errs;
        return d;
    }
    if key.len() < DAT_HEADER as usize || &key[..8] != b"abysdbK\0" {
        errs.push((Clause::Header, "key: bad signature1 or short header".into()));
        d.errors = errs;
        return d;
    }
    if val.len() < DAT_HEADER as usize || &val[..8] != b"abysdbV\0" {
        errs.push((Clause::Header, "val: bad signature1 or short header".into()));
        d.errors = errs;
        return d;
    }
    d.sig2[0].copy_from_slice(&htx[8..16]);
    d.sig2[1].copy_from_slice(&key[8..16]);
    d.sig2[2].copy_from_slice(&val[8..16]);
    if d.sig2[0] != d.sig2[1] || d.sig2[0] != d.sig2[2] {
        errs.push((Clause::Header, format!("type signatures differ: {:?}", d.sig2)));
    }
    if u64_at(key, 16) != Some(0) || u64_at(val, 16) != Some(0) {
        errs.push((Clause::Header, "key/val: reserve0 is not zero".into()));
    }
    d.n = u64_at(htx, 16).unwrap_or(0);
    d.count = u64_at(htx, 24).unwrap_or(0);
    let n = d.n;
    if n == 0 || n > (1 << 40) {
        errs.push((Clause::Header, format!("htx: table size {n}")));
        d.errors = errs;
        return d;
    }
    let want = HTX_HEADER + 8 * n + (n + 7) / 8;
    if htx.len() as u64 != want {
        errs.push((
            Clause::HtxSize,
            format!("htx: length {} but header + {n} buckets + bitmap is {want}", htx.len()),
        ));
    }
    // slot tilings and free lists
    d.keyf = tiling(key, "key", &mut errs);
    d.valf = tiling(val, "val", &mut errs);
    {
        let mut kf = std::mem::take(&mut d.keyf);
        free_lists(key, KEY_FREE_BASE, "key", &mut kf, &mut errs);
        d.keyf = kf;
        let mut vf = std::mem::take(&mut d.valf);
        free_lists(val, VAL_FREE_BASE, "val", &mut vf, &mut errs);
        d.valf = vf;
    }
    // chains
    let mut used_k: HashSet<u64> = HashSet::new();
    let mut used_v: HashSet<u64> = HashSet::new();
    let bitmap_start = (HTX_HEADER + 8 * n) as usize;
    'buckets: for b in 0..n {
        let head = match u64_at(htx, (HTX_HEADER + 8 * b) as usize) {
            Some(x) => x,
            None => {
                errs.push((Clause::HtxSize, format!("htx: bucket {b} is beyond the end of file")));
                break;
            }
        };
        if head == 0 {
            continue;
        }
        d.nonempty += 1;
        match htx.get(bitmap_start + (b / 8) as usize) {
            Some(byte) if (byte >> (b % 8)) & 1 == 1 => {}
            Some(_) => errs.push((Clause::Bitmap, format!("bucket {b} is not empty but its bitmap bit is clear"))),
            None => errs.push((Clause::Bitmap, format!("bucket {b}: bitmap byte is beyond the end of file"))),
        }
        let mut o = head;
        let mut pos = 0usize;
        while o != 0 {
            if !used_k.insert(o) {
                errs.push((Clause::Chain, format!("bucket {b}: key record {o} reached twice (cycle or shared record)")));
                continue 'buckets;
            }
            if o < DAT_HEADER || o as usize >= key.len() {
                errs.push((Clause::Chain, format!("bucket {b}: chain points to {o}, outside the key file")));
                continue 'buckets;
            }
            if d.keyf.tiling_ok && !d.keyf.slots.contains_key(&o) {
                errs.push((Clause::Chain, format!("bucket {b}: chain points to {o}, not a slot start")));
                continue 'buckets;
            }
            if d.keyf.free_set.contains_key(&o) {
                errs.push((Clause::Partition, format!("key slot {o} is live (bucket {b}) and on a free list")));
                continue 'buckets;
            }
            let r = match parse_key_rec(key, o as usize) {
                Some(r) => r,
                None => {
                    errs.push((Clause::Chain, format!("bucket {b}: key record {o} is truncated")));
                    continue 'buckets;
                }
            };
            if !legal_slot_size(r.size) {
                errs.push((Clause::Chain, format!("bucket {b}: key record {o} has illegal slot size {}", r.size)));
                continue 'buckets;
            }
            let slot_end = o + r.size;
            if r.end as u64 > slot_end {
                errs.push((
                    Clause::Overflow,
                    format!("key record {o}: encoded length {} exceeds its slot of {}", r.end as u64 - o, r.size),
                ));
            } else if (slot_end as usize) <= key.len() && key[r.end..slot_end as usize].iter().any(|x| *x != 0) {
                errs.push((Clause::Padding, format!("key record {o}: non-zero padding")));
            }
            let k = key[r.key_lo..r.key_hi].to_vec();
            let hb = place_hash(&k) % n;
            if hb != b {
                errs.push((
                    Clause::Placement,
                    format!("key {} is in bucket {b} but hashes to bucket {hb}", show_key(&k)),
                ));
            }
            // value record
            let mut val_size = 0u32;
            let mut val_len = 0u64;
            let mut value: Option<Vec<u8>> = None;
            let vo = r.val_off;
            if vo < DAT_HEADER || vo as usize >= val.len() {
                errs.push((Clause::ValueRef, format!("key record {o}: value offset {vo} is outside the value file")));
            } else if d.valf.tiling_ok && !d.valf.slots.contains_key(&vo) {
                errs.push((Clause::ValueRef, format!("key record {o}: value offset {vo} is not a slot start")));
            } else if d.valf.free_set.contains_key(&vo) {
                errs.push((Clause::Partition, format!("value slot {vo} is referenced by key record {o} and on a free list")));
            } else if !used_v.insert(vo) {
                errs.push((Clause::ValueRef, format!("value slot {vo} is referenced by two key records")));
            } else {
                match vu_decode(val, vo as usize).and_then(|(szu, l1)| vu_decode(val, vo as usize + l1).map(|(vl, l2)| (szu * 8, vl, l1 + l2))) {
                    None => errs.push((Clause::ValueRef, format!("value record {vo} is truncated"))),
                    Some((vsz, vl, hdr)) => {
                        val_size = vsz as u32;
                        val_len = vl;
                        let lo = vo as usize + hdr;
                        let hi = lo as u64 + vl;
                        if !legal_slot_size(vsz) || vo + vsz > val.len() as u64 {
                            errs.push((Clause::ValueRef, format!("value record {vo}: slot size {vsz} illegal or out of bounds")));
                        } else if hi > vo + vsz {
                            errs.push((
                                Clause::Overflow,
                                format!("value record {vo}: encoded length {} exceeds its slot of {vsz}", hi - vo),
                            ));
                        } else {
                            if val[hi as usize..(vo + vsz) as usize].iter().any(|x| *x != 0) {
                                errs.push((Clause::Padding, format!("value record {vo}: non-zero padding")));
                            }
                            value = Some(val[lo..hi as usize].to_vec());
                        }
                    }
                }
            }
            if d.contents.contains_key(&k) {
                errs.push((Clause::DupKey, format!("key {} appears twice", show_key(&k))));
            } else if let Some(v) = value {
                d.contents.insert(k.clone(), v);
            }
            d.live.push(LiveKey {
                off: o,
                size: r.size as u32,
                key: k,
                val_off: vo,
                next: r.next,
                bucket: b,
                pos,
                val_size,
                val_len,
                enc_len: (r.end as u64 - o) as u32,
            });
            pos += 1;
            if pos > d.max_chain {
                d.max_chain = pos;
            }
            o = r.next;
        }
    }
    if d.count != d.live.len() as u64 {
        errs.push((
            Clause::Count,
            format!("stored item count {} but {} keys are reachable", d.count, d.live.len()),
        ));
    }
    // partition: every slot live xor free
    if d.keyf.tiling_ok {
        for (o, s) in d.keyf.slots.iter() {
            if !used_k.contains(o) && !d.keyf.free_set.contains_key(o) {
                errs.push((Clause::Partition, format!("key slot {o} (size {}) is neither live nor on a free list", s.size)));
                break;
            }
        }
    }
    if d.valf.tiling_ok {
        for (o, s) in d.valf.slots.iter() {
            if !used_v.contains(o) && !d.valf.free_set.contains_key(o) {
                errs.push((Clause::Partition, format!("value slot {o} (size {}) is neither live nor on a free list", s.size)));
                break;
            }
        }
    }
    d.errors = errs;
    d
}

#[cfg(test)]
mod tests {
    use super::*;
    #[test]
    fn vu_roundtrip() {
        let mut vals: Vec<u64> = vec![0, 1, 127, 128, 16383, 16384, u64::MAX];
        for k in 0..64 {
            vals.push(1u64 << k);
            vals.push((1u64 << k) - 1);
            vals.push((1u64 << k) + 1);
        }
        for v in vals {
            let e = vu_encode(v);
            assert_eq!(e.len() as u32, vu_len(v));
            assert_eq!(vu_decode(&e, 0), Some((v, e.len())), "{v}");
        }
    }
}

// ---------------------------------------------------------------------------------------------
// independent slot arithmetic (used to build seeded images and by the C09 sweep)

/// the slot size the documented policy assigns to a record of `total` bytes
pub fn class_roundup(total: u64) -> u64 {
    for c in CLASSES.iter().take(15) {
        if total <= *c as u64 {
            return *c as u64;
        }
    }
    ((total + 128) / 128) * 128
}

/// exact number of bytes a value record occupies in a slot of `slot` bytes
pub fn value_record_len(len: u64, slot: u64) -> u64 {
    vu_len(slot / 8) as u64 + vu_len(len) as u64 + len
}

/// exact number of bytes a key record occupies in a slot of `slot` bytes
pub fn key_record_len(key_len: u64, val_off: u64, next_off: u64, slot: u64) -> u64 {
    vu_len(slot / 8) as u64 + vu_len(key_len) as u64 + key_len + vu_len(val_off / 8) as u64 + vu_len(next_off / 8) as u64
}

/// the slot a fresh value of `len` bytes gets under the documented policy
pub fn value_slot_for(len: u64) -> u64 {
    let rec = vu_len(len) as u64 + len;
    class_roundup(vu_len((rec + 7) / 8) as u64 + rec)
}

/// the slot a fresh key record gets under the documented policy
pub fn key_slot_for(key_len: u64, val_off: u64, next_off: u64) -> u64 {
    let rec = vu_len(key_len) as u64 + key_len + vu_len(val_off / 8) as u64 + vu_len(next_off / 8) as u64;
    class_roundup(vu_len((rec + 7) / 8) as u64 + rec)
}

fn show_key(b: &[u8]) -> String {
    let mut s = String::from("x");
    for x in b.iter().take(24) {
        s.push_str(&format!("{:02x}", x));
    }
    if b.len() > 24 {
        s.push_str(&format!("..({} bytes)", b.len()));
    }
    s
}
