//! Verdict plumbing: violations, known findings, replay files, evidence files, exit codes.
#![allow(dead_code)]

use crate::util::{digest_hex, hex, unhex, J};
use std::collections::BTreeMap;
use std::path::{Path, PathBuf};
use std::time::Instant;

pub fn verif_root() -> PathBuf {
    if let Ok(v) = std::env::var("ABYV_ROOT") {
        return PathBuf::from(v);
    }
    PathBuf::from("/verif")
}

#[derive(Clone, Debug)]
pub struct Violation {
    pub prop: String,
    /// stable identification of what fails (matched against KNOWN_FINDINGS.txt)
    pub key: String,
    pub message: String,
    pub replay: Replay,
}

/// a replayable artefact: which engine, its configuration and the one case, plus a readable story
#[derive(Clone, Debug, Default)]
pub struct Replay {
    pub engine: String,
    pub config: Vec<u8>,
    pub case: Vec<u8>,
    pub story: Vec<String>,
}

impl Replay {
    pub fn write(&self, prop: &str, key: &str, message: &str) -> PathBuf {
        let dir = out_root().join("replays");
        let _ = std::fs::create_dir_all(&dir);
        let dg = digest_hex(&[prop.as_bytes(), self.engine.as_bytes(), &self.config, &self.case]);
        let path = dir.join(format!("{prop}-{dg}.replay"));
        let mut s = String::new();
        s.push_str("abyv-replay 1\n");
        s.push_str(&format!("prop={prop}\n"));
        s.push_str(&format!("engine={}\n", self.engine));
        s.push_str(&format!("key={key}\n"));
        s.push_str(&format!("message={}\n", message.replace('\n', " | ")));
        for l in &self.story {
            s.push_str(&format!("story={}\n", l.replace('\n', " | ")));
        }
        s.push_str(&format!("config={}\n", hex(&self.config)));
        s.push_str(&format!("case={}\n", hex(&self.case)));
        let _ = std::fs::write(&path, s);
        path
    }
    pub fn read(path: &Path) -> Option<(String, Replay, String)> {
        let txt = std::fs::read_to_string(path).ok()?;
        let mut r = Replay::default();
        let mut prop = String::new();
        let mut message = String::new();
        for line in txt.lines() {
            if let Some((k, v)) = line.split_once('=') {
                match k {
                    "prop" => prop = v.to_string(),
                    "engine" => r.engine = v.to_string(),
                    "message" => message = v.to_string(),
                    "story" => r.story.push(v.to_string()),
                    "config" => r.config = unhex(v),
                    "case" => r.case = unhex(v),
                    _ => {}
                }
            }
        }
        if r.engine.is_empty() {
            return None;
        }
        Some((prop, r, message))
    }
}

/// where evidence and replay files go (ABYV_OUT redirects them, e.g. while a seeded change is tried)
pub fn out_root() -> PathBuf {
    if let Ok(v) = std::env::var("ABYV_OUT") {
        return PathBuf::from(v);
    }
    verif_root()
}

// ---------------------------------------------------------------------------------------------
// known findings

#[derive(Clone, Debug)]
pub struct Known {
    pub prop: String,
    pub key: String,
    pub text: String,
}

pub fn load_known() -> Vec<Known> {
    let path = verif_root().join("KNOWN_FINDINGS.txt");
    let mut v = Vec::new();
    if let Ok(txt) = std::fs::read_to_string(path) {
        for line in txt.lines() {
            let line = line.trim();
            if let Some(rest) = line.strip_prefix("known:") {
                let mut prop = String::new();
                let mut key = String::new();
                let mut text = Vec::new();
                for tok in rest.split_whitespace() {
                    if let Some(p) = tok.strip_prefix("property=") {
                        if prop.is_empty() {
                            prop = p.to_string();
                            continue;
                        }
                    }
                    if let Some(k) = tok.strip_prefix("key=") {
                        if key.is_empty() {
                            key = k.to_string();
                            continue;
                        }
                    }
                    text.push(tok);
                }
                if !prop.is_empty() && !key.is_empty() {
                    v.push(Known { prop, key, text: text.join(" ") });
                }
            }
        }
    }
    v
}

fn key_matches(pattern: &str, key: &str) -> bool {
    if let Some(p) = pattern.strip_suffix('*') {
        key.starts_with(p)
    } else {
        pattern == key
    }
}

// ---------------------------------------------------------------------------------------------
// one run of one check

pub struct Run {
    pub prop: String,
    pub tier: String,
    pub seed: u64,
    pub level: String,
    pub start: Instant,
    pub violations: Vec<Violation>,
    pub coverage: Vec<(String, J)>,
    pub assumptions: Vec<String>,
    pub samples: Vec<J>,
    pub counters: BTreeMap<String, i64>,
    pub exhaustive: bool,
    pub notes: Vec<String>,
    pub max_violations: usize,
}

impl Run {
    pub fn new(prop: &str, tier: &str, seed: u64, level: &str) -> Run {
        Run {
            prop: prop.to_string(),
            tier: tier.to_string(),
            seed,
            level: level.to_string(),
            start: Instant::now(),
            violations: Vec::new(),
            coverage: Vec::new(),
            assumptions: Vec::new(),
            samples: Vec::new(),
            counters: BTreeMap::new(),
            exhaustive: true,
            notes: Vec::new(),
            max_violations: 40,
        }
    }
    pub fn thorough(&self) -> bool {
        self.tier == "thorough"
    }
    pub fn add(&mut self, name: &str, n: i64) {
        *self.counters.entry(name.to_string()).or_insert(0) += n;
    }
    pub fn get(&self, name: &str) -> i64 {
        *self.counters.get(name).unwrap_or(&0)
    }
    pub fn set(&mut self, name: &str, v: J) {
        if let Some(e) = self.coverage.iter_mut().find(|e| e.0 == name) {
            e.1 = v;
        } else {
            self.coverage.push((name.to_string(), v));
        }
    }
    pub fn sample(&mut self, v: J) {
        if self.samples.len() < 12 {
            self.samples.push(v);
        }
    }
    pub fn violation(&mut self, v: Violation) {
        // one report per distinct key
        if self.violations.iter().any(|x| x.key == v.key) {
            self.add("violations_suppressed_same_key", 1);
            return;
        }
        if self.violations.len() < self.max_violations {
            self.violations.push(v);
        } else {
            self.add("violations_dropped_over_limit", 1);
        }
    }
    pub fn too_many(&self) -> bool {
        self.violations.len() >= self.max_violations
    }
    pub fn elapsed(&self) -> f64 {
        self.start.elapsed().as_secs_f64()
    }

    /// write the evidence file, print the verdict lines and return the exit code
    pub fn finish(mut self) -> i32 {
        let known = load_known();
        let mut unlisted: Vec<&Violation> = Vec::new();
        let mut listed: BTreeMap<String, (String, usize)> = BTreeMap::new();
        for v in &self.violations {
            if let Some(k) = known.iter().find(|k| k.prop == v.prop && key_matches(&k.key, &v.key)) {
                let e = listed.entry(k.key.clone()).or_insert((k.text.clone(), 0));
                e.1 += 1;
            } else {
                unlisted.push(v);
            }
        }
        for (key, (text, n)) in &listed {
            println!("KNOWN-FINDING: property={} key={} {} [{} case(s) in this run]", self.prop, key, text, n);
        }
        let mut lines = Vec::new();
        for v in &unlisted {
            let path = v.replay.write(&v.prop, &v.key, &v.message);
            println!("VIOLATION property={} replay={}", v.prop, path.display());
            println!("  what: {}", v.message);
            println!("  key: {}", v.key);
            for l in &v.replay.story {
                println!("  | {l}");
            }
            lines.push(format!("{}: {}", v.key, v.message));
        }
        let wall = self.elapsed();
        // evidence
        let mut cov: Vec<(String, J)> = Vec::new();
        for (k, v) in self.coverage.drain(..) {
            cov.push((k, v));
        }
        if !cov.iter().any(|e| e.0 == "samples") {
            cov.push(("samples".into(), J::Arr(self.samples.clone())));
        }
        if !cov.iter().any(|e| e.0 == "exhaustive") {
            cov.push(("exhaustive".into(), J::Bool(self.exhaustive)));
        }
        let mut ctr = Vec::new();
        for (k, v) in &self.counters {
            ctr.push((k.clone(), J::Int(*v)));
        }
        cov.push(("counters".into(), J::Obj(ctr)));
        if !self.notes.is_empty() {
            cov.push(("notes".into(), J::Arr(self.notes.iter().map(|s| J::s(s)).collect())));
        }
        if !listed.is_empty() {
            cov.push((
                "known_findings_reproduced".into(),
                J::Arr(listed.iter().map(|(k, (t, n))| J::s(&format!("{k}: {t} [{n}]"))).collect()),
            ));
        }
        if !lines.is_empty() {
            cov.push(("violation_messages".into(), J::Arr(lines.iter().map(|s| J::s(s)).collect())));
        }
        let ev = J::Obj(vec![
            ("property_id".into(), J::s(&self.prop)),
            ("tier".into(), J::s(&self.tier)),
            ("seed".into(), J::Int(self.seed as i64)),
            ("level".into(), J::s(&self.level)),
            ("coverage".into(), J::Obj(cov)),
            ("assumptions".into(), J::Arr(self.assumptions.iter().map(|s| J::s(s)).collect())),
            ("wall_s".into(), J::Num(wall)),
            ("violations".into(), J::Int(unlisted.len() as i64)),
        ]);
        let dir = out_root().join("evidence");
        let _ = std::fs::create_dir_all(&dir);
        let path = dir.join(format!("{}.json", self.prop));
        if let Err(e) = std::fs::write(&path, ev.render()) {
            eprintln!("MACHINERY: cannot write evidence {}: {e}", path.display());
            return 2;
        }
        if unlisted.is_empty() {
            println!(
                "OK property={} tier={} wall={:.1}s exhaustive={} known_findings={}",
                self.prop,
                self.tier,
                wall,
                self.exhaustive,
                listed.len()
            );
            0
        } else {
            1
        }
    }
}

pub fn machinery_failure(msg: &str) -> ! {
    eprintln!("MACHINERY: {msg}");
    println!("MACHINERY-FAILURE {msg}");
    std::process::exit(2);
}
