//! Engine A: explicit-state search over on-disk images.
//!
//! state      = exact bytes of the three files of one map
//! transition = materialise image -> open -> one update call -> drop every handle -> read files
//! The search is breadth first, level synchronous, with exact duplicate detection, and runs to
//! closure (empty frontier) or to a stated cap. Oracles are evaluated in the worker that executed
//! the subject; the parent owns the visited set and the model of every state.
#![allow(dead_code)]

use crate::decoder::{self, Clause, Decoded};
use crate::pool::{JobResult, Pool, WorkerIo};
use crate::report::{Replay, Run, Violation};
use crate::subject::*;
use crate::util::{show, Buf, Rd, J};
use abyssiniandb::filedb::{CheckFileDbMap, FileDbMap};
use abyssiniandb::{DbMap, DbXxx, DbXxxBase};
use std::collections::{BTreeMap, HashMap};
use std::path::PathBuf;

pub const O_API: u32 = 1 << 0;
pub const O_REOPEN: u32 = 1 << 1;
pub const O_ITER: u32 = 1 << 2;
pub const O_DEC: u32 = 1 << 3;
pub const O_STATS: u32 = 1 << 4;
pub const O_RO: u32 = 1 << 5;
pub const O_ALLOC: u32 = 1 << 6;
pub const O_DOUBLE: u32 = 1 << 7;
pub const O_RELOC: u32 = 1 << 8;
/// the model's contents must equal the decoded contents (needs O_DEC)
pub const O_DEC_CONTENTS: u32 = 1 << 9;
/// cross-process double execution (the parent deals a second, spliced execution to another worker)
pub const O_XPROC: u32 = 1 << 10;
/// transitions are run under alternating parameter sets of the list (an existing map must ignore them)
pub const O_ALT_PARAMS: u32 = 1 << 11;

pub const JOB_A_CONFIG: u8 = 10;
pub const JOB_A_EXPAND: u8 = 11;
/// sets the base image against which states are delta-encoded on the wire and in the visited set
pub const JOB_A_BASE: u8 = 13;

pub fn clause_mask(cs: &[Clause]) -> u32 {
    let mut m = 0;
    for c in cs {
        m |= 1 << (Clause::ALL.iter().position(|x| x == c).unwrap());
    }
    m
}
pub const ALL_CLAUSES: u32 = (1 << 13) - 1;

#[derive(Clone, Debug)]
pub struct ACfg {
    pub prop: String,
    pub kt: KtId,
    /// params[0] creates the map and runs every transition; the others are used by O_REOPEN
    pub params: Vec<Params>,
    pub keys: Vec<Vec<u8>>,
    pub absent: Vec<Vec<u8>>,
    pub vals: Vec<u32>,
    pub seed: u64,
    /// entries of the start image that no letter of the alphabet touches
    pub extras: BTreeMap<Vec<u8>, Vec<u8>>,
    /// values of alphabet keys in the start image (model code 255)
    pub init_vals: Vec<Option<Vec<u8>>>,
    pub oracles: u32,
    pub clauses: u32,
    /// 0 none, 1 one combined read-only session, 2 every single read-only call, 3 all ordered pairs
    pub ro_mode: u8,
    /// slots per size the start image already holds (its own history's peak); added to the slot-count bound
    pub slot_slack: u32,
}

impl ACfg {
    pub fn new(prop: &str, kt: KtId, params: Vec<Params>, keys: Vec<Vec<u8>>, absent: Vec<Vec<u8>>, vals: Vec<u32>, seed: u64) -> ACfg {
        let nk = keys.len();
        ACfg {
            prop: prop.to_string(),
            kt,
            params,
            keys,
            absent,
            vals,
            seed,
            extras: BTreeMap::new(),
            init_vals: vec![None; nk],
            oracles: 0,
            clauses: ALL_CLAUSES,
            ro_mode: 0,
            slot_slack: 0,
        }
    }
    pub fn enc(&self) -> Vec<u8> {
        let mut b = Buf::new();
        b.str(&self.prop).u8(self.kt as u8).u32(self.params.len() as u32);
        for p in &self.params {
            p.enc(&mut b);
        }
        b.u32(self.keys.len() as u32);
        for k in &self.keys {
            b.bytes(k);
        }
        b.u32(self.absent.len() as u32);
        for k in &self.absent {
            b.bytes(k);
        }
        b.u32(self.vals.len() as u32);
        for v in &self.vals {
            b.u32(*v);
        }
        b.u64(self.seed);
        b.u32(self.extras.len() as u32);
        for (k, v) in &self.extras {
            b.bytes(k).bytes(v);
        }
        for iv in &self.init_vals {
            match iv {
                Some(v) => {
                    b.u8(1).bytes(v);
                }
                None => {
                    b.u8(0);
                }
            }
        }
        b.u32(self.oracles).u32(self.clauses).u8(self.ro_mode).u32(self.slot_slack);
        b.0
    }
    pub fn dec(bytes: &[u8]) -> ACfg {
        let mut r = Rd::new(bytes);
        let prop = r.string();
        let kt = KtId::from_u8(r.u8());
        let np = r.u32();
        let params = (0..np).map(|_| Params::dec(&mut r)).collect();
        let nk = r.u32();
        let keys: Vec<Vec<u8>> = (0..nk).map(|_| r.vec()).collect();
        let na = r.u32();
        let absent = (0..na).map(|_| r.vec()).collect();
        let nv = r.u32();
        let vals = (0..nv).map(|_| r.u32()).collect();
        let seed = r.u64();
        let ne = r.u32();
        let mut extras = BTreeMap::new();
        for _ in 0..ne {
            let k = r.vec();
            let v = r.vec();
            extras.insert(k, v);
        }
        let mut init_vals = Vec::new();
        for _ in 0..nk {
            if r.u8() == 1 {
                init_vals.push(Some(r.vec()));
            } else {
                init_vals.push(None);
            }
        }
        let oracles = r.u32();
        let clauses = r.u32();
        let ro_mode = r.u8();
        let slot_slack = if r.done() { 0 } else { r.u32() }; // absent in replay files written before the field existed
        ACfg { prop, kt, params, keys, absent, vals, seed, extras, init_vals, oracles, clauses, ro_mode, slot_slack }
    }
    pub fn n_ops(&self) -> usize {
        self.keys.len() * (self.vals.len() + 1)
    }
    /// (key index, Some(value index) for put / None for delete)
    pub fn op(&self, idx: usize) -> (usize, Option<usize>) {
        let per = self.vals.len() + 1;
        let ki = idx / per;
        let vj = idx % per;
        (ki, if vj < self.vals.len() { Some(vj) } else { None })
    }
    pub fn op_label(&self, idx: usize) -> String {
        let (ki, vj) = self.op(idx);
        match vj {
            Some(j) => format!("put(k{ki}={}, {} bytes)", show(&self.keys[ki]), self.vals[j]),
            None => format!("delete(k{ki}={})", show(&self.keys[ki])),
        }
    }
    pub fn op_kind(&self, idx: usize) -> &'static str {
        if self.op(idx).1.is_some() {
            "put"
        } else {
            "delete"
        }
    }
    pub fn value(&self, ki: usize, vj: usize) -> Vec<u8> {
        value_bytes(self.seed, ki as u64, vj as u64, self.vals[vj] as usize)
    }
    pub fn apply_code(&self, code: &mut [u8], idx: usize) {
        let (ki, vj) = self.op(idx);
        code[ki] = match vj {
            Some(j) => 1 + j as u8,
            None => 0,
        };
    }
    pub fn model(&self, code: &[u8]) -> BTreeMap<Vec<u8>, Vec<u8>> {
        let mut m = self.extras.clone();
        for (ki, c) in code.iter().enumerate() {
            match *c {
                0 => {}
                255 => {
                    if let Some(v) = &self.init_vals[ki] {
                        m.insert(self.keys[ki].clone(), v.clone());
                    }
                }
                j => {
                    m.insert(self.keys[ki].clone(), self.value(ki, (j - 1) as usize));
                }
            }
        }
        m
    }
    pub fn describe(&self) -> J {
        J::obj(vec![
            ("key_type", J::s(self.kt.name())),
            ("params", J::Arr(self.params.iter().map(|p| J::s(&p.label())).collect())),
            ("keys", J::Arr(self.keys.iter().map(|k| J::s(&show(k))).collect())),
            ("value_lengths", J::Arr(self.vals.iter().map(|v| J::Int(*v as i64)).collect())),
            ("letters", J::Int(self.n_ops() as i64)),
        ])
    }
}

/// the bytes of the value that letter (key ki, size class vj) stores: depends on both, so that a
/// value delivered for the wrong key or with stale bytes is visible
pub fn value_bytes(seed: u64, ki: u64, vj: u64, len: usize) -> Vec<u8> {
    let mut v = Vec::with_capacity(len);
    let a = (seed.wrapping_mul(31).wrapping_add(ki * 17 + vj * 29 + 3)) as u32;
    for t in 0..len as u32 {
        v.push(((t.wrapping_mul(131).wrapping_add(a).wrapping_add(t >> 8)) % 251) as u8);
    }
    v
}

// ---------------------------------------------------------------------------------------------
// worker side

#[derive(Default)]
pub struct Findings {
    pub list: Vec<(u32, i32, String, String)>, // oracle bit, op (-1 observer), key, message
    pub counters: BTreeMap<String, i64>,
}

impl Findings {
    fn v(&mut self, oracle: u32, op: i32, key: &str, msg: String) {
        if self.list.len() < 16 {
            self.list.push((oracle, op, key.to_string(), msg));
        }
    }
    fn c(&mut self, name: &str, n: i64) {
        *self.counters.entry(name.to_string()).or_insert(0) += n;
    }
}

pub struct AWorker {
    pub base: Image,
    pub cfg: ACfg,
    pub scratch: Scratch,
    pub dir_obs: PathBuf,
    pub dir_w: PathBuf,
    pub dir_w2: PathBuf,
}

pub const PROGRESS_OBSERVER_BASE: u64 = 1_000_000;

fn clip(s: &str) -> String {
    // stable, short identification of a failure message (strip the location and numbers)
    let s = s.split(" at ").next().unwrap_or(s);
    let mut out = String::new();
    let mut last_digit = false;
    for c in s.chars() {
        if c.is_ascii_digit() {
            if !last_digit {
                out.push('N');
            }
            last_digit = true;
        } else {
            last_digit = false;
            out.push(if c.is_whitespace() { '_' } else { c });
        }
        if out.len() >= 60 {
            break;
        }
    }
    out
}

pub fn fail_key<T>(o: &Out<T>) -> String {
    match o {
        Out::Ok(_) => "ok".into(),
        Out::Err(e) => format!("err:{}", clip(e)),
        Out::Panic(m) => format!("panic:{}", clip(m)),
    }
}

fn parse_stats(s: &str) -> Vec<(u64, u64)> {
    let mut out = Vec::new();
    let mut nums: Vec<u64> = Vec::new();
    let mut cur = String::new();
    for c in s.chars() {
        if c.is_ascii_digit() {
            cur.push(c);
        } else if !cur.is_empty() {
            nums.push(cur.parse().unwrap_or(u64::MAX));
            cur.clear();
        }
    }
    for p in nums.chunks(2) {
        if p.len() == 2 {
            out.push((p[0], p[1]));
        }
    }
    out
}

pub const ITER_FLAVOURS: [&str; 10] = ["iter", "iter_mut", "keys", "values", "into_iter", "&into_iter", "&mut into_iter", "iter with len()/is_empty() between the steps", "keys and values in lockstep", "iter with get() of other keys between the steps"];

/// drive one iterator to its end, checking size_hint before every step and the behaviour after
/// the end; returns the yielded items or a complaint
fn drain<I: Iterator>(mut it: I, expect: usize) -> Result<Vec<I::Item>, String> {
    let mut out = Vec::new();
    loop {
        let remaining = expect.saturating_sub(out.len());
        let sh = it.size_hint();
        if sh != (remaining, Some(remaining)) {
            return Err(format!("size_hint {:?} before step {} but {} items remain", sh, out.len(), remaining));
        }
        match it.next() {
            Some(x) => {
                out.push(x);
                if out.len() > expect + 4 {
                    return Err(format!("yielded more than {} items", expect + 4));
                }
            }
            None => break,
        }
    }
    for extra in 0..3 {
        if it.next().is_some() {
            return Err(format!("next() number {} after the end returned an item", extra + 1));
        }
        let sh = it.size_hint();
        if sh != (0, Some(0)) {
            return Err(format!("size_hint {:?} after the end", sh));
        }
    }
    Ok(out)
}

pub type Pairs = Vec<(Option<Vec<u8>>, Option<Vec<u8>>)>;

/// an iterator adaptor that runs a read-only call on the same map before every step
struct Interleave<I: Iterator, F: FnMut()> {
    it: I,
    f: F,
}
impl<I: Iterator, F: FnMut()> Iterator for Interleave<I, F> {
    type Item = I::Item;
    fn next(&mut self) -> Option<I::Item> {
        (self.f)();
        self.it.next()
    }
    fn size_hint(&self) -> (usize, Option<usize>) {
        self.it.size_hint()
    }
}

/// two iterators over the same map advanced in lockstep (both must stay exact)
struct Lockstep<A: Iterator, B: Iterator> {
    a: A,
    b: B,
}
impl<A: Iterator, B: Iterator> Iterator for Lockstep<A, B> {
    type Item = (A::Item, B::Item);
    fn next(&mut self) -> Option<Self::Item> {
        match (self.a.next(), self.b.next()) {
            (Some(x), Some(y)) => Some((x, y)),
            _ => None,
        }
    }
    fn size_hint(&self) -> (usize, Option<usize>) {
        let (x, y) = (self.a.size_hint(), self.b.size_hint());
        if x == y { x } else { (usize::MAX, None) }
    }
}

/// run iterator flavour `f` on the map; items as (key?, value?)
pub fn run_flavour<T: Kt>(m: &mut FileDbMap<T>, f: usize, expect: usize) -> Out<Result<Pairs, String>> {
    guard_plain(|| {
        let kv = |v: Vec<(T, Vec<u8>)>| -> Pairs { v.into_iter().map(|(k, v)| (Some(k.as_bytes().to_vec()), Some(v))).collect() };
        match f {
            0 => drain(m.iter(), expect).map(kv),
            1 => drain(m.iter_mut(), expect).map(kv),
            2 => drain(m.keys(), expect).map(|v| v.into_iter().map(|k| (Some(k.as_bytes().to_vec()), None)).collect()),
            3 => drain(m.values(), expect).map(|v| v.into_iter().map(|x| (None, Some(x))).collect()),
            4 => drain(m.clone().into_iter(), expect).map(kv),
            5 => drain((&*m).into_iter(), expect).map(kv),
            6 => drain((&mut *m).into_iter(), expect).map(kv),
            7 => {
                // the map is not modified during the traversal, but other read-only calls happen
                let m2 = m.clone();
                let it = m.iter();
                drain(Interleave { it, f: move || { let _ = m2.len(); let _ = m2.is_empty(); } }, expect).map(kv)
            }
            8 => {
                let ks = m.keys();
                let vs = m.values();
                drain(Lockstep { a: ks, b: vs }, expect).map(|v| v.into_iter().map(|(k, v)| (Some(k.as_bytes().to_vec()), Some(v))).collect())
            }
            _ => {
                let mut m2 = m.clone();
                let probe: Vec<Vec<u8>> = m.keys().take(3).map(|k| k.as_bytes().to_vec()).collect();
                let mut i = 0usize;
                let it = m.iter();
                drain(Interleave { it, f: move || {
                    if !probe.is_empty() {
                        let _ = m2.get(&probe[i % probe.len()][..]);
                        let _ = m2.includes_key(&probe[(i + 1) % probe.len()][..]);
                        i += 1;
                    }
                } }, expect).map(kv)
            }
        }
    })
}

pub fn check_flavour(f: usize, got: &Pairs, model: &BTreeMap<Vec<u8>, Vec<u8>>) -> Option<String> {
    let mut g = got.clone();
    g.sort();
    let mut e: Pairs = match f {
        2 => model.keys().map(|k| (Some(k.clone()), None)).collect(),
        3 => model.values().map(|v| (None, Some(v.clone()))).collect(),
        _ => model.iter().map(|(k, v)| (Some(k.clone()), Some(v.clone()))).collect(),
    };
    e.sort();
    if g == e {
        return None;
    }
    // describe the first difference
    let mut gi = g.iter().peekable();
    let mut ei = e.iter().peekable();
    loop {
        match (gi.peek(), ei.peek()) {
            (Some(a), Some(b)) if a == b => {
                gi.next();
                ei.next();
            }
            (Some(a), Some(b)) => {
                return Some(if a < b {
                    format!("yields unexpected or repeated item key={} value={}", a.0.as_ref().map(|k| show(k)).unwrap_or_default(), a.1.as_ref().map(|k| show(k)).unwrap_or_default())
                } else {
                    format!("does not yield key={} value={}", b.0.as_ref().map(|k| show(k)).unwrap_or_default(), b.1.as_ref().map(|k| show(k)).unwrap_or_default())
                });
            }
            (Some(a), None) => return Some(format!("yields extra item key={}", a.0.as_ref().map(|k| show(k)).unwrap_or_default())),
            (None, Some(b)) => return Some(format!("does not yield key={}", b.0.as_ref().map(|k| show(k)).unwrap_or_default())),
            (None, None) => return Some("multiset differs".into()),
        }
    }
}

/// the read-only calls of C15; each returns a complaint only if the call itself misbehaves
pub const RO_CALLS: [&str; 29] = [
    "get(present)", "get(absent)", "includes_key(present)", "includes_key(absent)", "len", "is_empty", "bulk_get",
    "iter(full)", "iter_mut(full)", "keys(full)", "values(full)", "into_iter(full)", "iter(partial)", "keys(partial)",
    "count_of_free_key_piece", "count_of_free_value_piece", "key_piece_size_stats", "value_piece_size_stats",
    "key_length_stats", "value_length_stats", "htx_filling_rate_per_mill", "read_fill_buffer", "flush", "sync_all+sync_data",
    "get_string(present+absent)", "bulk_get_string",
    "iter with len()/is_empty() between the steps", "iter with get()/includes_key() between the steps",
    "iter with a statistics call (through a clone) between the steps",
];

pub fn ro_call<T: Kt>(cfg: &ACfg, m: &mut FileDbMap<T>, db: &abyssiniandb::filedb::FileDb, call: usize, model: &BTreeMap<Vec<u8>, Vec<u8>>) -> Option<String> {
    let present: Option<&Vec<u8>> = model.keys().next();
    let absent: &Vec<u8> = &cfg.absent[0];
    let n = model.len();
    let r: Out<()> = match call {
        0 => guard(|| {
            if let Some(k) = present {
                let _ = m.get(&k[..])?;
            }
            Ok(())
        }),
        1 => guard(|| m.get(&absent[..]).map(|_| ())),
        2 => guard(|| {
            if let Some(k) = present {
                let _ = m.includes_key(&k[..])?;
            }
            Ok(())
        }),
        3 => guard(|| m.includes_key(&absent[..]).map(|_| ())),
        4 => guard(|| m.len().map(|_| ())),
        5 => guard(|| m.is_empty().map(|_| ())),
        6 => guard(|| {
            let mut ks: Vec<&[u8]> = cfg.keys.iter().map(|k| &k[..]).collect();
            ks.push(&absent[..]);
            m.bulk_get(&ks).map(|_| ())
        }),
        7..=11 => {
            let f = call - 7;
            match run_flavour(m, f, n) {
                Out::Ok(_) => Out::Ok(()),
                Out::Err(e) => Out::Err(e),
                Out::Panic(p) => Out::Panic(p),
            }
        }
        12 => guard_plain(|| {
            let mut it = m.iter();
            let _ = it.next();
        }),
        13 => guard_plain(|| {
            let mut it = m.keys();
            let _ = it.next();
            let _ = it.next();
        }),
        14 => guard(|| m.count_of_free_key_piece().map(|_| ())),
        15 => guard(|| m.count_of_free_value_piece().map(|_| ())),
        16 => guard(|| m.key_piece_size_stats().map(|_| ())),
        17 => guard(|| m.value_piece_size_stats().map(|_| ())),
        18 => guard(|| m.key_length_stats().map(|_| ())),
        19 => guard(|| m.value_length_stats().map(|_| ())),
        20 => guard(|| m.htx_filling_rate_per_mill().map(|_| ())),
        21 => guard(|| m.read_fill_buffer()),
        22 => guard(|| m.flush()),
        23 => guard(|| {
            m.sync_all()?;
            m.sync_data()?;
            db.sync_all()?;
            db.sync_data()
        }),
        24 => guard(|| {
            if let Some(k) = present {
                let _ = m.get_string(&k[..])?;
            }
            m.get_string(&absent[..]).map(|_| ())
        }),
        25 => guard(|| {
            let mut ks: Vec<&[u8]> = cfg.keys.iter().map(|k| &k[..]).collect();
            ks.push(&absent[..]);
            m.bulk_get_string(&ks).map(|_| ())
        }),
        // an iterator kept open while other read-only calls run on the same map
        26 => {
            let _ = run_flavour(m, 7, n);
            Out::Ok(())
        }
        27 => {
            let _ = run_flavour(m, 9, n);
            Out::Ok(())
        }
        _ => {
            let other = m.clone();
            let _ = guard_plain(|| {
                let mut it = m.iter();
                let mut steps = 0usize;
                while it.next().is_some() {
                    let _ = other.htx_filling_rate_per_mill();
                    let _ = other.count_of_free_key_piece();
                    steps += 1;
                    if steps > n + 2 {
                        break;
                    }
                }
            });
            Out::Ok(())
        }
    };
    r.failed()
}

impl AWorker {
    pub fn new(cfg: ACfg) -> AWorker {
        let scratch = Scratch::new("a");
        let dir_obs = scratch.fresh("obs");
        let dir_w = scratch.fresh("w");
        let dir_w2 = scratch.fresh("w2");
        AWorker { base: Image::default(), cfg, scratch, dir_obs, dir_w, dir_w2 }
    }

    /// job payload: packed image, model code, op filter (u32::MAX all), flags
    ///   flags bit0: run observers; bit1: transitions spliced with read-only calls (verification
    ///   run of the cross-process double execution); bit2: run transitions
    pub fn expand(&mut self, payload: &[u8], io: &mut WorkerIo) -> Vec<u8> {
        let mut r = Rd::new(payload);
        let packed = r.vec();
        let code = r.vec();
        let filter = r.u32();
        let flags = r.u8();
        let nskip = r.u32();
        let skip: Vec<u64> = (0..nskip).map(|_| r.u64()).collect();
        let image = Image::unpack_delta(&packed, &self.base);
        let kt = self.cfg.kt;
        crate::with_kt!(kt, T => self.expand_t::<T>(&image, &code, filter, flags, &skip, io))
    }

    fn expand_t<T: Kt>(&mut self, image: &Image, code: &[u8], filter: u32, flags: u8, skip: &[u64], io: &mut WorkerIo) -> Vec<u8> {
        let cfg = self.cfg.clone();
        let o = cfg.oracles;
        let model = cfg.model(code);
        let mut f = Findings::default();
        let p0 = cfg.params[0];
        let need_dec = o & (O_DEC | O_STATS | O_ALLOC | O_RELOC) != 0;
        let dec_pred: Option<Decoded> = if need_dec { Some(decoder::decode(&image.htx, &image.key, &image.val)) } else { None };

        // ---- observers on the state itself
        if flags & 1 != 0 {
            let mut obs_id = 0u64;
            let mut begin = |io: &mut WorkerIo, skip: &[u64]| -> bool {
                obs_id += 1;
                let id = PROGRESS_OBSERVER_BASE + obs_id;
                if skip.contains(&id) {
                    return false;
                }
                io.progress(id);
                true
            };
            if o & O_DEC != 0 && begin(io, skip) {
                let d = dec_pred.as_ref().unwrap();
                f.c("decoded_states", 1);
                for c in Clause::ALL.iter() {
                    f.c(&format!("clause_evaluated_{}", c.name()), 1);
                }
                for (c, msg) in &d.errors {
                    let bit = 1u32 << Clause::ALL.iter().position(|x| x == c).unwrap();
                    if cfg.clauses & bit != 0 {
                        f.v(O_DEC, -1, &format!("decode:{}", c.name()), format!("independent decoder, clause {}: {}", c.name(), msg));
                    }
                }
                if o & O_DEC_CONTENTS != 0 && d.errors.is_empty() && d.contents != model {
                    f.v(O_DEC, -1, "decode:contents", format!("decoded contents ({} entries) differ from the model ({} entries)", d.contents.len(), model.len()));
                }
                if !d.keyf.free_set.is_empty() || !d.valf.free_set.is_empty() {
                    f.c("states_with_nonempty_free_list", 1);
                }
                if d.max_chain >= 2 {
                    f.c("states_with_chain_len_ge2", 1);
                }
            }
            let need_open = o & (O_API | O_ITER | O_STATS) != 0;
            if need_open && begin(io, skip) {
                clear_dir(&self.dir_obs);
                let _ = image.write(&self.dir_obs, MAP_NAME);
                match open_map::<T>(&self.dir_obs, MAP_NAME, &p0) {
                    Out::Ok((db, mut m)) => {
                        if o & O_API != 0 {
                            self.obs_api(&cfg, &mut m, &model, &mut f);
                        }
                        if o & O_ITER != 0 {
                            self.obs_iter(&mut m, &model, &mut f);
                        }
                        if o & O_STATS != 0 {
                            if let Some(d) = dec_pred.as_ref() {
                                if !d.errors.is_empty() {
                                    f.c("stats_not_compared_undecodable_state", 1);
                                }
                                // the figures are defined by the chains and the free lists; they can be compared
                                // as long as those could be walked (an orphan slot does not prevent that)
                                let comparable = d.errors.iter().all(|e| matches!(e.0, Clause::Partition | Clause::Padding | Clause::Bitmap | Clause::Count));
                                self.obs_stats(&mut m, d, comparable, &mut f);
                            }
                        }
                        let _ = guard_plain(move || {
                            drop(m);
                            drop(db);
                        });
                    }
                    other => f.v(O_API, -1, &format!("open:{}", fail_key(&other)), format!("opening the state's files {}", other.failed().unwrap_or_default())),
                }
            }
            if o & O_REOPEN != 0 {
                for (pi, p) in cfg.params.iter().enumerate().skip(1) {
                    if !begin(io, skip) {
                        continue;
                    }
                    clear_dir(&self.dir_obs);
                    let _ = image.write(&self.dir_obs, MAP_NAME);
                    match open_map::<T>(&self.dir_obs, MAP_NAME, p) {
                        Out::Ok((db, mut m)) => {
                            let before = f.list.len();
                            self.obs_api(&cfg, &mut m, &model, &mut f);
                            self.obs_iter_one(&mut m, 0, &model, &mut f);
                            for e in f.list.iter_mut().skip(before) {
                                e.0 = O_REOPEN;
                                e.2 = format!("reopen:{}", e.2);
                                e.3 = format!("re-opened with parameter set #{pi} ({}): {}", p.label(), e.3);
                            }
                            f.c("reopen_sessions", 1);
                            let _ = guard_plain(move || {
                                drop(m);
                                drop(db);
                            });
                        }
                        other => f.v(O_REOPEN, -1, &format!("reopen:open:{}", fail_key(&other)), format!("re-opening with parameter set #{pi} ({}) {}", p.label(), other.failed().unwrap_or_default())),
                    }
                }
            }
            if o & O_RO != 0 {
                let sessions: Vec<Vec<usize>> = match cfg.ro_mode {
                    1 => vec![(0..RO_CALLS.len()).collect()],
                    2 => (0..RO_CALLS.len()).map(|c| vec![c]).collect(),
                    3 => {
                        let mut v: Vec<Vec<usize>> = (0..RO_CALLS.len()).map(|c| vec![c]).collect();
                        for a in 0..RO_CALLS.len() {
                            for b in 0..RO_CALLS.len() {
                                v.push(vec![a, b]);
                            }
                        }
                        v
                    }
                    _ => vec![],
                };
                let mut dirty = true;
                for (si, s) in sessions.into_iter().enumerate() {
                    if !begin(io, skip) {
                        continue;
                    }
                    // read-only sessions also run under the other parameter sets of the list
                    let p0 = cfg.params[si % cfg.params.len()];
                    if dirty {
                        clear_dir(&self.dir_obs);
                        let _ = image.write(&self.dir_obs, MAP_NAME);
                        dirty = false;
                    }
                    let name: Vec<&str> = s.iter().map(|c| RO_CALLS[*c]).collect();
                    let name = name.join(" ; ");
                    match open_map::<T>(&self.dir_obs, MAP_NAME, &p0) {
                        Out::Ok((db, mut m)) => {
                            for c in &s {
                                if let Some(bad) = ro_call(&cfg, &mut m, &db, *c, &model) {
                                    f.v(O_RO, -1, &format!("ro-call:{}", RO_CALLS[*c]), format!("read-only call {} {}", RO_CALLS[*c], bad));
                                }
                            }
                            // logical contents after the session
                            let mut ok = true;
                            for (k, v) in model.iter() {
                                if guard(|| m.get(&k[..])) != Out::Ok(Some(v.clone())) {
                                    ok = false;
                                }
                            }
                            if guard(|| m.len()) != Out::Ok(model.len() as u64) {
                                ok = false;
                            }
                            if !ok {
                                f.v(O_RO, -1, &format!("ro-contents:{name}"), format!("after the read-only session [{name}] the map's contents differ from before"));
                            }
                            let _ = guard_plain(move || {
                                drop(m);
                                drop(db);
                            });
                        }
                        other => f.v(O_RO, -1, &format!("ro:open:{}", fail_key(&other)), format!("open {}", other.failed().unwrap_or_default())),
                    }
                    f.c("ro_sessions", 1);
                    match Image::read(&self.dir_obs, MAP_NAME) {
                        Ok(after) => {
                            if &after != image {
                                dirty = true;
                                f.v(O_RO, -1, &format!("ro-bytes:{name}"), format!("files changed by the read-only session [{name}]: {}", image.describe_diff(&after)));
                            }
                        }
                        Err(e) => {
                            dirty = true;
                            f.v(O_RO, -1, "ro-bytes:unreadable", format!("files unreadable after a read-only session: {e}"));
                        }
                    }
                }
            }
        }

        // ---- transitions
        let mut succs: Vec<(u32, u8, Vec<u8>)> = Vec::new();
        if flags & 4 != 0 {
            for idx in 0..cfg.n_ops() {
                if filter != u32::MAX && filter as usize != idx {
                    continue;
                }
                if skip.contains(&(idx as u64)) {
                    continue;
                }
                io.progress(idx as u64);
                let spliced = flags & 2 != 0;
                let (res_ok, succ) = self.transition::<T>(&cfg, image, idx, &model, spliced, false, &mut f);
                f.c("transitions", 1);
                let mut status = if res_ok { 0u8 } else { 1u8 };
                if let Some(succ) = &succ {
                    if o & O_DOUBLE != 0 && res_ok && !spliced {
                        let mut f2 = Findings::default();
                        let (ok2, succ2) = self.transition::<T>(&cfg, image, idx, &model, true, true, &mut f2);
                        f.c("double_executions", 1);
                        match succ2 {
                            Some(s2) if ok2 => {
                                if &s2 != succ {
                                    f.v(O_DOUBLE, idx as i32, &format!("double:{}", cfg.op_kind(idx)), format!("{} executed twice from the same image (second time in another directory with read-only calls spliced in) gives different files: {}", cfg.op_label(idx), succ.describe_diff(&s2)));
                                }
                            }
                            _ => {
                                let why = f2.list.first().map(|e| e.3.clone()).unwrap_or_default();
                                f.v(O_DOUBLE, idx as i32, &format!("double-fail:{}", cfg.op_kind(idx)), format!("{} fails when repeated with read-only calls spliced in: {why}", cfg.op_label(idx)));
                            }
                        }
                    }
                    if o & (O_ALLOC | O_RELOC) != 0 && res_ok {
                        if let Some(dp) = dec_pred.as_ref() {
                            if dp.errors.is_empty() {
                                let ds = decoder::decode(&succ.htx, &succ.key, &succ.val);
                                if ds.errors.is_empty() {
                                    if o & O_ALLOC != 0 {
                                        self.check_alloc(&cfg, idx, dp, &ds, &mut f);
                                    }
                                    if o & O_RELOC != 0 {
                                        self.count_reloc(&cfg, idx, dp, &ds, &mut f);
                                    }
                                }
                            }
                        }
                    }
                }
                let packed = match &succ {
                    Some(s) => s.pack_delta(&self.base),
                    None => {
                        status = 2;
                        Vec::new()
                    }
                };
                succs.push((idx as u32, status, packed));
            }
        }

        // ---- response
        let mut b = Buf::new();
        b.u32(f.list.len() as u32);
        for (orc, op, key, msg) in &f.list {
            b.u32(*orc).u32(*op as u32).str(key).str(msg);
        }
        b.u32(succs.len() as u32);
        for (idx, st, p) in &succs {
            b.u32(*idx).u8(*st).bytes(p);
        }
        b.u32(f.counters.len() as u32);
        for (k, v) in &f.counters {
            b.str(k).u64(*v as u64);
        }
        b.0
    }

    /// one transition: materialise, open, (read-only splice), the update, (splice), drop, read back
    fn transition<T: Kt>(&mut self, cfg: &ACfg, image: &Image, idx: usize, model: &BTreeMap<Vec<u8>, Vec<u8>>, spliced: bool, second_dir: bool, f: &mut Findings) -> (bool, Option<Image>) {
        let dir = if second_dir { self.dir_w2.clone() } else { self.dir_w.clone() };
        clear_dir(&dir);
        if !image.is_empty() {
            if let Err(e) = image.write(&dir, MAP_NAME) {
                crate::report::machinery_failure(&format!("cannot materialise image: {e}"));
            }
        }
        let (ki, vj) = cfg.op(idx);
        let key = &cfg.keys[ki];
        let p0 = if cfg.oracles & O_ALT_PARAMS != 0 && !image.is_empty() { cfg.params[(idx + image.key.len() / 8) % cfg.params.len()] } else { cfg.params[0] };
        let (db, mut m) = match open_map::<T>(&dir, MAP_NAME, &p0) {
            Out::Ok(x) => x,
            other => {
                f.v(O_API, idx as i32, &format!("open:{}", fail_key(&other)), format!("open before {} {}", cfg.op_label(idx), other.failed().unwrap_or_default()));
                return (false, None);
            }
        };
        if spliced {
            let _ = guard(|| m.get(&key[..]));
            let _ = guard(|| m.len());
            let _ = guard(|| m.includes_key(&cfg.absent[0][..]));
            let _ = guard_plain(|| {
                let mut it = m.iter();
                let _ = it.next();
            });
        }
        let mut ok = true;
        match vj {
            Some(j) => {
                let v = cfg.value(ki, j);
                let r = guard(|| m.put(&key[..], &v));
                if r != Out::Ok(()) {
                    ok = false;
                    f.v(O_API, idx as i32, &format!("put:{}", fail_key(&r)), format!("{} {}", cfg.op_label(idx), r.failed().unwrap_or_default()));
                }
            }
            None => {
                let r = guard(|| m.delete(&key[..]));
                let exp = model.get(key).cloned();
                match &r {
                    Out::Ok(got) if *got == exp => {}
                    Out::Ok(got) => {
                        ok = false;
                        f.v(O_API, idx as i32, "delete:wrong-result", format!("{} returned {} but the model says {}", cfg.op_label(idx), got.as_ref().map(|v| show(v)).unwrap_or("None".into()), exp.as_ref().map(|v| show(v)).unwrap_or("None".into())));
                    }
                    _ => {
                        ok = false;
                        f.v(O_API, idx as i32, &format!("delete:{}", fail_key(&r)), format!("{} {}", cfg.op_label(idx), r.failed().unwrap_or_default()));
                    }
                }
            }
        }
        if spliced && ok {
            let _ = guard(|| m.get(&key[..]));
            let _ = guard(|| m.is_empty());
            // a complete traversal (plain: the size-hint bookkeeping of the iterator oracle is not wanted here)
            let _ = guard_plain(|| m.iter().count());
            let _ = guard_plain(|| m.keys().count());
            let _ = guard(|| m.count_of_free_value_piece());
            let _ = guard(|| m.count_of_free_key_piece());
            let _ = guard(|| m.key_length_stats());
            let _ = guard(|| m.value_length_stats());
            let _ = guard(|| m.key_piece_size_stats());
            let _ = guard(|| m.value_piece_size_stats());
            let _ = guard(|| m.htx_filling_rate_per_mill());
            let _ = guard(|| m.get_string(&key[..]));
            let ks: Vec<&[u8]> = cfg.keys.iter().map(|k| &k[..]).collect();
            let _ = guard(|| m.bulk_get_string(&ks));
            let _ = guard(|| m.bulk_get(&ks));
        }
        let dropped = guard_plain(move || {
            drop(m);
            drop(db);
        });
        if let Out::Panic(p) = dropped {
            ok = false;
            f.v(O_API, idx as i32, "drop:panic", format!("dropping the handles after {} panicked: {p}", cfg.op_label(idx)));
        }
        if !ok {
            return (false, None);
        }
        match Image::read(&dir, MAP_NAME) {
            Ok(s) => (true, Some(s)),
            Err(e) => {
                f.v(O_API, idx as i32, "files:unreadable", format!("files unreadable after {}: {e}", cfg.op_label(idx)));
                (false, None)
            }
        }
    }

    fn obs_api<T: Kt>(&self, cfg: &ACfg, m: &mut FileDbMap<T>, model: &BTreeMap<Vec<u8>, Vec<u8>>, f: &mut Findings) {
        for (ki, k) in cfg.keys.iter().enumerate() {
            let exp = model.get(k).cloned();
            let r = guard(|| m.get(&k[..]));
            f.c("api_reads", 1);
            if r != Out::Ok(exp.clone()) {
                let got = match &r {
                    Out::Ok(g) => format!("returned {}", g.as_ref().map(|v| show(v)).unwrap_or("None".into())),
                    _ => r.failed().unwrap_or_default(),
                };
                f.v(O_API, -1, &format!("get:{}", if r.is_ok() { "wrong-result".to_string() } else { fail_key(&r) }), format!("get(k{ki}={}) {} but the model says {}", show(k), got, exp.as_ref().map(|v| show(v)).unwrap_or("None".into())));
            }
            let r = guard(|| m.includes_key(&k[..]));
            if r != Out::Ok(exp.is_some()) {
                f.v(O_API, -1, "includes_key:wrong", format!("includes_key(k{ki}={}) gives {:?} but the model says {}", show(k), r, exp.is_some()));
            }
        }
        // entries of the start image outside the alphabet: no call ever names them, they must keep their values
        for (k, v) in cfg.extras.iter().take(64) {
            let r = guard(|| m.get(&k[..]));
            f.c("api_reads", 1);
            if r != Out::Ok(Some(v.clone())) {
                let got = match &r {
                    Out::Ok(g) => format!("returned {}", g.as_ref().map(|v| show(v)).unwrap_or("None".into())),
                    _ => r.failed().unwrap_or_default(),
                };
                f.v(O_API, -1, &format!("get-untouched:{}", if r.is_ok() { "wrong-result".to_string() } else { fail_key(&r) }), format!("get of the untouched entry {} {} but it was stored with {} and never updated", show(k), got, show(v)));
            }
        }
        for k in cfg.absent.iter() {
            let exp = model.get(k).cloned();
            let r = guard(|| m.get(&k[..]));
            if r != Out::Ok(exp.clone()) {
                f.v(O_API, -1, "get-absent:wrong", format!("get({}) of a key never stored gives {:?}", show(k), r));
            }
            let r = guard(|| m.includes_key(&k[..]));
            if r != Out::Ok(exp.is_some()) {
                f.v(O_API, -1, "includes_key-absent:wrong", format!("includes_key({}) of a key never stored gives {:?}", show(k), r));
            }
        }
        let r = guard(|| m.len());
        if r != Out::Ok(model.len() as u64) {
            f.v(O_API, -1, "len:wrong", format!("len() gives {:?} but the model holds {} entries", r, model.len()));
        }
        let r = guard(|| m.is_empty());
        if r != Out::Ok(model.is_empty()) {
            f.v(O_API, -1, "is_empty:wrong", format!("is_empty() gives {:?} but the model holds {} entries", r, model.len()));
        }
    }

    fn obs_iter_one<T: Kt>(&self, m: &mut FileDbMap<T>, fl: usize, model: &BTreeMap<Vec<u8>, Vec<u8>>, f: &mut Findings) {
        f.c("iterator_traversals", 1);
        match run_flavour(m, fl, model.len()) {
            Out::Ok(Ok(items)) => {
                if let Some(bad) = check_flavour(fl, &items, model) {
                    f.v(O_ITER, -1, &format!("iter:{}:items", ITER_FLAVOURS[fl]), format!("{} {}", ITER_FLAVOURS[fl], bad));
                }
            }
            Out::Ok(Err(bad)) => f.v(O_ITER, -1, &format!("iter:{}:protocol", ITER_FLAVOURS[fl]), format!("{}: {}", ITER_FLAVOURS[fl], bad)),
            other => f.v(O_ITER, -1, &format!("iter:{}:{}", ITER_FLAVOURS[fl], fail_key(&other)), format!("{} {}", ITER_FLAVOURS[fl], other.failed().unwrap_or_default())),
        }
    }

    fn obs_iter<T: Kt>(&self, m: &mut FileDbMap<T>, model: &BTreeMap<Vec<u8>, Vec<u8>>, f: &mut Findings) {
        for fl in 0..ITER_FLAVOURS.len() {
            self.obs_iter_one(m, fl, model, f);
        }
    }

    fn obs_stats<T: Kt>(&self, m: &mut FileDbMap<T>, d: &Decoded, compare: bool, f: &mut Findings) {
        f.c("stats_states", 1);
        let cmp_counts = |name: &str, r: Out<Vec<(u32, u64)>>, exp: Vec<(u32, u64)>, f: &mut Findings| match r {
            Out::Ok(got) if got == exp || !compare => {}
            Out::Ok(got) => f.v(O_STATS, -1, &format!("stats:{name}"), format!("{name} reports {:?} but the files hold {:?}", got, exp)),
            other => f.v(O_STATS, -1, &format!("stats:{name}:{}", fail_key(&other)), format!("{name} {}", other.failed().unwrap_or_default())),
        };
        cmp_counts("count_of_free_key_piece", guard(|| m.count_of_free_key_piece()), d.free_counts(true), f);
        cmp_counts("count_of_free_value_piece", guard(|| m.count_of_free_value_piece()), d.free_counts(false), f);
        let cmp_hist = |name: &str, r: Out<String>, exp: Vec<(u64, u64)>, f: &mut Findings| match r {
            Out::Ok(s) => {
                let got = parse_stats(&s);
                if got != exp && compare {
                    f.v(O_STATS, -1, &format!("stats:{name}"), format!("{name} reports {s} but the files hold {:?}", exp));
                }
            }
            other => f.v(O_STATS, -1, &format!("stats:{name}:{}", fail_key(&other)), format!("{name} {}", other.failed().unwrap_or_default())),
        };
        cmp_hist("key_piece_size_stats", guard(|| m.key_piece_size_stats().map(|s| s.to_string())), d.key_size_hist(), f);
        cmp_hist("value_piece_size_stats", guard(|| m.value_piece_size_stats().map(|s| s.to_string())), d.val_size_hist(), f);
        cmp_hist("key_length_stats", guard(|| m.key_length_stats().map(|s| s.to_string())), d.key_len_hist(), f);
        cmp_hist("value_length_stats", guard(|| m.value_length_stats().map(|s| s.to_string())), d.val_len_hist(), f);
        let r = guard(|| m.htx_filling_rate_per_mill());
        let exp = (d.nonempty, (d.nonempty * 1000 / d.n.max(1)) as u32);
        match r {
            Out::Ok(got) if got == exp || !compare => {}
            Out::Ok(got) => f.v(O_STATS, -1, "stats:htx_filling_rate_per_mill", format!("htx_filling_rate_per_mill reports {:?} but {} of {} buckets are non-empty ({:?})", got, d.nonempty, d.n, exp)),
            other => f.v(O_STATS, -1, &format!("stats:htx_filling_rate_per_mill:{}", fail_key(&other)), format!("htx_filling_rate_per_mill {}", other.failed().unwrap_or_default())),
        }
        if d.live.iter().any(|k| k.key.is_empty() || k.val_len == 0) {
            f.c("stats_states_with_empty_key_or_value", 1);
        }
    }

    /// C06 rule 2: a file grows only if no free slot of a suitable size existed (see check_alloc)
    fn check_alloc(&self, cfg: &ACfg, idx: usize, dp: &Decoded, ds: &Decoded, f: &mut Findings) {
        for (what, fp, fs) in [("key", &dp.keyf, &ds.keyf), ("val", &dp.valf, &ds.valf)] {
            f.c("alloc_rule_evaluations", 1);
            if fs.file_len < fp.file_len {
                f.c("file_shrank", 1);
                continue;
            }
            if fs.file_len == fp.file_len {
                continue;
            }
            f.c(&format!("{what}_file_grew"), 1);
            for (o, s) in fs.slots.range(fp.file_len..) {
                let size = s.size;
                let suitable = fp.free_set.iter().find(|(fo, _)| {
                    if !fs.free_set.contains_key(*fo) {
                        return false;
                    }
                    let fsz = fp.slots.get(*fo).map(|x| x.size).unwrap_or(0);
                    if size < 1024 {
                        fsz == size
                    } else {
                        fsz >= size
                    }
                });
                if let Some((fo, _)) = suitable {
                    let fsz = fp.slots.get(fo).map(|x| x.size).unwrap_or(0);
                    f.v(O_ALLOC, idx as i32, &format!("alloc:{what}:extended-despite-free-slot"), format!("{}: the {what} file was extended by a slot of {size} bytes at {o} although the free slot at {fo} ({fsz} bytes) was available before and is still free afterwards", cfg.op_label(idx)));
                }
            }
        }
        // slot count bound per distinct slot size (follows from the rule above by induction)
        let bound = cfg.keys.len() + cfg.extras.len() + 1 + cfg.slot_slack as usize;
        for (what, fs) in [("key", &ds.keyf), ("val", &ds.valf)] {
            let mut per: HashMap<u32, usize> = HashMap::new();
            for s in fs.slots.values() {
                *per.entry(s.size).or_insert(0) += 1;
            }
            for (size, n) in per {
                if n > bound {
                    f.v(O_ALLOC, idx as i32, &format!("alloc:{what}:slot-count"), format!("after {}: {n} slots of {size} bytes in the {what} file although at most {} entries ever exist at once (bound {bound}, including {} slots per size already present in the start image)", cfg.op_label(idx), cfg.keys.len() + cfg.extras.len(), cfg.slot_slack));
                }
            }
        }
    }

    fn count_reloc(&self, cfg: &ACfg, idx: usize, dp: &Decoded, ds: &Decoded, f: &mut Findings) {
        let chain_len = |d: &Decoded, b: u64| d.live.iter().filter(|k| k.bucket == b).count();
        let (ki, _) = cfg.op(idx);
        for kp in &dp.live {
            if let Some(ks) = ds.live.iter().find(|k| k.key == kp.key) {
                let who = if kp.key == cfg.keys[ki] { "target" } else { "other" };
                if ks.off != kp.off {
                    let n = chain_len(dp, kp.bucket);
                    let pos = if n == 1 {
                        "only"
                    } else if kp.pos == 0 {
                        "first"
                    } else if kp.pos == n - 1 {
                        "last"
                    } else {
                        "middle"
                    };
                    f.c(&format!("key_record_moved_{who}_{pos}_by_{}", cfg.op_kind(idx)), 1);
                    f.c("key_record_moved", 1);
                }
                if ks.val_off != kp.val_off {
                    f.c("value_record_moved", 1);
                    let w = |o: u64| decoder::vu_len(o / 8);
                    if w(ks.val_off) != w(kp.val_off) {
                        f.c(&format!("value_offset_width_{}_to_{}", w(kp.val_off), w(ks.val_off)), 1);
                    }
                }
                let w = |o: u64| decoder::vu_len(o / 8);
                if ks.next != kp.next && w(ks.next) != w(kp.next) {
                    f.c(&format!("link_width_{}_to_{}", w(kp.next), w(ks.next)), 1);
                }
            }
        }
    }
}

// ---------------------------------------------------------------------------------------------
// parent side

pub struct Start {
    pub label: String,
    pub image: Image,
    pub code: Vec<u8>,
}

pub struct Caps {
    pub max_states: usize,
    pub max_secs: f64,
    /// every state is expanded by a freshly spawned process (C02: "re-open in a new process")
    pub fresh_process: bool,
}

pub struct BfsStats {
    pub states: usize,
    pub transitions: u64,
    pub closed: bool,
    pub depth_completed: u32,
    pub max_depth: u32,
    pub dup_hits: u64,
    pub self_loops: u64,
}

struct StateRec {
    code: Vec<u8>,
    pred: u32,
    op: u32,
    depth: u32,
    start: u32,
}

pub fn make_expand_job(packed: &[u8], code: &[u8], filter: u32, flags: u8, skip: &[u64]) -> Vec<u8> {
    let mut b = Buf::new();
    b.u8(JOB_A_EXPAND).bytes(packed).bytes(code).u32(filter).u8(flags).u32(skip.len() as u32);
    for s in skip {
        b.u64(*s);
    }
    b.0
}

pub struct Expanded {
    pub findings: Vec<(u32, i32, String, String)>,
    pub succs: Vec<(u32, u8, Vec<u8>)>,
    pub counters: Vec<(String, i64)>,
}

pub fn parse_expanded(bytes: &[u8]) -> Expanded {
    let mut r = Rd::new(bytes);
    let nf = r.u32();
    let mut findings = Vec::new();
    for _ in 0..nf {
        let o = r.u32();
        let op = r.u32() as i32;
        let k = r.string();
        let m = r.string();
        findings.push((o, op, k, m));
    }
    let ns = r.u32();
    let mut succs = Vec::new();
    for _ in 0..ns {
        let idx = r.u32();
        let st = r.u8();
        let p = r.vec();
        succs.push((idx, st, p));
    }
    let nc = r.u32();
    let mut counters = Vec::new();
    for _ in 0..nc {
        let k = r.string();
        let v = r.u64() as i64;
        counters.push((k, v));
    }
    Expanded { findings, succs, counters }
}

fn path_to(states: &[StateRec], mut id: u32) -> (u32, Vec<u32>) {
    let mut ops = Vec::new();
    while states[id as usize].pred != u32::MAX {
        ops.push(states[id as usize].op);
        id = states[id as usize].pred;
    }
    ops.reverse();
    (states[id as usize].start, ops)
}

pub fn make_replay(cfg: &ACfg, start: &Start, path: &[u32], last_op: i32, why: &str) -> Replay {
    let mut case = Buf::new();
    case.bytes(&start.image.pack()).bytes(&start.code).u32(path.len() as u32);
    for p in path {
        case.u32(*p);
    }
    case.u32(last_op as u32);
    let mut story = vec![
        format!("key type {}; parameters {}", cfg.kt.name(), cfg.params[0].label()),
        format!("start image: {} (.htx/.key/.val = {:?} bytes)", start.label, start.image.sizes()),
    ];
    for (i, p) in path.iter().enumerate() {
        story.push(format!("step {}: open, {}, drop all handles", i + 1, cfg.op_label(*p as usize)));
    }
    if last_op >= 0 {
        story.push(format!("then: open, {}, drop all handles", cfg.op_label(last_op as usize)));
    }
    story.push(format!("observed: {why}"));
    Replay { engine: "A".into(), config: cfg.enc(), case: case.0, story }
}

/// breadth-first search to closure or cap. Violations are added to `run` under `cfg.prop`.
pub fn bfs(cfg: &ACfg, starts: &[Start], caps: &Caps, pool: &mut Pool, run: &mut Run) -> BfsStats {
    let base: Image = starts.first().map(|s| s.image.clone()).unwrap_or_default();
    pool.reinit(vec![
        {
            let mut b = Buf::new();
            b.u8(JOB_A_CONFIG).bytes(&cfg.enc());
            b.0
        },
        {
            let mut b = Buf::new();
            b.u8(JOB_A_BASE).bytes(&base.pack());
            b.0
        },
    ]);
    let mut index: HashMap<Vec<u8>, u32> = HashMap::new();
    let mut states: Vec<StateRec> = Vec::new();
    let mut frontier: Vec<(u32, Vec<u8>)> = Vec::new();
    for (si, s) in starts.iter().enumerate() {
        let packed = s.image.pack_delta(&base);
        if index.contains_key(&packed) {
            continue;
        }
        let id = states.len() as u32;
        index.insert(packed.clone(), id);
        states.push(StateRec { code: s.code.clone(), pred: u32::MAX, op: 0, depth: 0, start: si as u32 });
        frontier.push((id, packed));
    }
    let mut st = BfsStats { states: 0, transitions: 0, closed: false, depth_completed: 0, max_depth: 0, dup_hits: 0, self_loops: 0 };
    let n_workers = pool.size();
    let xproc = cfg.oracles & O_XPROC != 0;
    let mut depth = 0u32;
    let mut capped = false;
    let violations_at_start = run.violations.len();
    const BATCH: usize = 1024;
    'levels: while !frontier.is_empty() {
        let mut next: Vec<(u32, Vec<u8>)> = Vec::new();
        let mut level_complete = true;
        for chunk in frontier.chunks(BATCH) {
            if run.elapsed() > caps.max_secs || run.too_many() {
                capped = true;
                level_complete = false;
                break;
            }
            let jobs: Vec<Vec<u8>> = chunk.iter().map(|(id, packed)| make_expand_job(packed, &states[*id as usize].code, u32::MAX, 1 | 4, &[])).collect();
            let mut results = if caps.fresh_process {
                let spec = pool.spec();
                let nthreads = pool.size();
                let mut out: Vec<Option<JobResult>> = vec![None; jobs.len()];
                std::thread::scope(|sc| {
                    let mut hs = Vec::new();
                    for t in 0..nthreads {
                        let spec = &spec;
                        let jobs = &jobs;
                        hs.push(sc.spawn(move || {
                            let mut v = Vec::new();
                            for (i, j) in jobs.iter().enumerate() {
                                if i % nthreads == t {
                                    v.push((i, crate::pool::run_isolated_spec(spec, j)));
                                }
                            }
                            v
                        }));
                    }
                    for h in hs {
                        for (i, r) in h.join().expect("thread") {
                            out[i] = Some(r);
                        }
                    }
                });
                run.add("state_expansions_in_a_freshly_spawned_process", jobs.len() as i64);
                out.into_iter().map(|r| r.expect("job")).collect()
            } else {
                pool.map(&jobs, |i| i)
            };
            // crashed jobs: confirm in isolation (once per kind of failure); the search stops after this level
            for (i, res) in results.iter_mut().enumerate() {
                if let JobResult::Crashed { progress, how } = res.clone() {
                    let (id, packed) = &chunk[i];
                    let code = states[*id as usize].code.clone();
                    let step = match progress {
                        Some(s) => s,
                        None => crate::report::machinery_failure(&format!("worker crashed before starting the job: {how}")),
                    };
                    let is_op = step < PROGRESS_OBSERVER_BASE;
                    let kind = if how.contains("hang") { "hang" } else { "abort" };
                    let key = if is_op { format!("{kind}:{}", cfg.op_kind(step as usize)) } else { format!("{kind}:observer") };
                    run.add("worker_crashes", 1);
                    if !run.violations.iter().any(|v| v.key == key) {
                        let confirm = if is_op {
                            pool.run_isolated(&make_expand_job(packed, &code, step as u32, 4, &[]))
                        } else {
                            // observers are numbered in execution order: re-run them all (they are cheap)
                            pool.run_isolated(&make_expand_job(packed, &code, u32::MAX, 1, &[]))
                        };
                        match confirm {
                            JobResult::Crashed { how: how2, .. } => {
                                let (si, path) = path_to(&states, *id);
                                let what = if is_op { cfg.op_label(step as usize) } else { format!("read-only observer #{}", step - PROGRESS_OBSERVER_BASE) };
                                let msg = format!("{what} does not return normally: {how}; confirmed alone in a fresh process: {how2}");
                                let last = if is_op { step as i32 } else { -1 };
                                run.violation(Violation { prop: cfg.prop.clone(), key, message: msg.clone(), replay: make_replay(cfg, &starts[si as usize], &path, last, &msg) });
                            }
                            JobResult::Done(_) => {
                                crate::report::machinery_failure(&format!("a worker crash did not reproduce in isolation ({how}); no verdict"));
                            }
                        }
                    }
                    // the state stays unexpanded; the search ends after this level
                    *res = JobResult::Done(Buf::new().u32(0).u32(0).u32(0).0.clone());
                }
            }
            // cross-process double execution: the same transitions, spliced, by a different worker
            let verify: Option<Vec<JobResult>> = if xproc {
                let vjobs: Vec<Vec<u8>> = chunk.iter().map(|(id, packed)| make_expand_job(packed, &states[*id as usize].code, u32::MAX, 2 | 4, &[])).collect();
                Some(pool.map(&vjobs, |i| i + 1 + (i / n_workers) % (n_workers.max(2) - 1)))
            } else {
                None
            };
            for (i, res) in results.into_iter().enumerate() {
                let (id, _packed) = &chunk[i];
                let id = *id;
                let ex = match res {
                    JobResult::Done(b) => parse_expanded(&b),
                    JobResult::Crashed { how, .. } => crate::report::machinery_failure(&format!("unrecoverable worker crash: {how}")),
                };
                for (k, v) in &ex.counters {
                    run.add(k, *v);
                }
                for (_orc, op, key, msg) in &ex.findings {
                    let (si, path) = path_to(&states, id);
                    run.violation(Violation { prop: cfg.prop.clone(), key: key.clone(), message: msg.clone(), replay: make_replay(cfg, &starts[si as usize], &path, *op, msg) });
                }
                if let Some(v) = &verify {
                    match &v[i] {
                        JobResult::Done(b) => {
                            let vx = parse_expanded(b);
                            run.add("cross_process_double_executions", vx.succs.len() as i64);
                            for ((idx, st1, p1), (_idx2, st2, p2)) in ex.succs.iter().zip(vx.succs.iter()) {
                                if *st1 == 0 && (st2 != st1 || p1 != p2) {
                                    let (si, path) = path_to(&states, id);
                                    let msg = format!("{} executed in two different processes and directories (second with read-only calls spliced in) gives different files: {}", cfg.op_label(*idx as usize), if *st2 == 0 { Image::unpack_delta(p1, &base).describe_diff(&Image::unpack_delta(p2, &base)) } else { "second execution failed".into() });
                                    run.violation(Violation { prop: cfg.prop.clone(), key: format!("xproc:{}", cfg.op_kind(*idx as usize)), message: msg.clone(), replay: make_replay(cfg, &starts[si as usize], &path, *idx as i32, &msg) });
                                }
                            }
                        }
                        JobResult::Crashed { how, .. } => {
                            run.add("cross_process_runs_crashed", 1);
                            run.notes.push(format!("a spliced verification run crashed: {how}"));
                        }
                    }
                }
                st.states += 1;
                for (idx, status, packed) in ex.succs {
                    st.transitions += 1;
                    if status != 0 {
                        continue;
                    }
                    let mut code = states[id as usize].code.clone();
                    cfg.apply_code(&mut code, idx as usize);
                    if let Some(&known) = index.get(&packed) {
                        st.dup_hits += 1;
                        if known == id {
                            st.self_loops += 1;
                        }
                        if states[known as usize].code != code {
                            // identical files reached by two histories with different contents
                            let (si, mut path) = path_to(&states, id);
                            path.push(idx);
                            let msg = format!("two histories with different final contents produce byte-identical files (model codes {:?} vs {:?}): one of them is answered wrongly", states[known as usize].code, code);
                            run.violation(Violation { prop: cfg.prop.clone(), key: "model:confluence".into(), message: msg.clone(), replay: make_replay(cfg, &starts[si as usize], &path, -1, &msg) });
                        }
                    } else {
                        if states.len() >= caps.max_states {
                            capped = true;
                            level_complete = false;
                            continue;
                        }
                        let nid = states.len() as u32;
                        index.insert(packed.clone(), nid);
                        states.push(StateRec { code, pred: id, op: idx, depth: depth + 1, start: states[id as usize].start });
                        next.push((nid, packed));
                    }
                }
            }
        }
        if level_complete {
            st.depth_completed = depth;
        }
        if capped {
            break 'levels;
        }
        if run.violations.len() > violations_at_start {
            // a counterexample exists: its shortest path is known, deeper levels add nothing
            capped = true;
            break 'levels;
        }
        depth += 1;
        st.max_depth = depth;
        frontier = next;
    }
    st.closed = !capped;
    // samples: the deepest states' paths
    let total = states.len();
    for pick in [total.saturating_sub(1), total / 2, total / 3] {
        if pick < total && total > 0 {
            let (si, path) = path_to(&states, pick as u32);
            run.sample(J::obj(vec![
                ("start", J::s(&starts[si as usize].label)),
                ("depth", J::Int(path.len() as i64)),
                ("history", J::Arr(path.iter().map(|p| J::s(&cfg.op_label(*p as usize))).collect())),
                ("model_code", J::s(&format!("{:?}", states[pick].code))),
            ]));
        }
    }
    if !st.closed {
        run.exhaustive = false;
    }
    st
}

/// single-process replay of an engine A artefact
pub fn replay(config: &[u8], case: &[u8]) -> i32 {
    let cfg = ACfg::dec(config);
    let mut r = Rd::new(case);
    let start = Image::unpack(r.bytes());
    let mut code = r.vec();
    let n = r.u32();
    let path: Vec<u32> = (0..n).map(|_| r.u32()).collect();
    let last_op = r.u32() as i32;
    println!("replay engine A: property {} key type {} parameters {}", cfg.prop, cfg.kt.name(), cfg.params[0].label());
    let mut w = AWorker::new(cfg.clone());
    w.base = start.clone();
    let base = start.clone();
    let mut io = crate::pool::WorkerIo::sink();
    let mut image = start;
    for (i, op) in path.iter().enumerate() {
        let job = make_expand_job(&image.pack_delta(&base), &code, *op, 4, &[]);
        let ex = parse_expanded(&w.expand(&job[1..], &mut io));
        println!("step {}: {} -> {}", i + 1, cfg.op_label(*op as usize), if ex.succs.first().map(|s| s.1) == Some(0) { "ok" } else { "FAILED" });
        for f in &ex.findings {
            println!("  finding: {}", f.3);
        }
        match ex.succs.first() {
            Some((_, 0, p)) => image = Image::unpack_delta(p, &base),
            _ => {
                println!("REPLAY: the path itself fails at step {}", i + 1);
                return 1;
            }
        }
        cfg.apply_code(&mut code, *op as usize);
    }
    println!("state after the path: sizes {:?}, model code {:?}", image.sizes(), code);
    let (filter, flags) = if last_op >= 0 { (last_op as u32, 1 | 4) } else { (u32::MAX - 1, 1 | 4) };
    let job = make_expand_job(&image.pack_delta(&base), &code, filter, flags, &[]);
    let ex = parse_expanded(&w.expand(&job[1..], &mut io));
    if ex.findings.is_empty() {
        println!("REPLAY: no violation reproduced");
        0
    } else {
        for f in &ex.findings {
            println!("REPLAY VIOLATION [{}]: {}", f.2, f.3);
        }
        1
    }
}


/// the statistics calls of a live handle against an independently decoded image (first mismatch)
pub fn stats_vs_decoded<T: Kt>(m: &mut FileDbMap<T>, d: &Decoded) -> Option<String> {
    let counts = |name: &str, r: Out<Vec<(u32, u64)>>, exp: Vec<(u32, u64)>| -> Option<String> {
        match r {
            Out::Ok(got) if got == exp => None,
            Out::Ok(got) => Some(format!("{name} reports {:?} but the files hold {:?}", got, exp)),
            other => Some(format!("{name} {}", other.failed().unwrap_or_default())),
        }
    };
    let hist = |name: &str, r: Out<String>, exp: Vec<(u64, u64)>| -> Option<String> {
        match r {
            Out::Ok(s) => {
                if parse_stats(&s) != exp {
                    Some(format!("{name} reports {s} but the files hold {:?}", exp))
                } else {
                    None
                }
            }
            other => Some(format!("{name} {}", other.failed().unwrap_or_default())),
        }
    };
    if let Some(e) = counts("count_of_free_key_piece", guard(|| m.count_of_free_key_piece()), d.free_counts(true)) {
        return Some(e);
    }
    if let Some(e) = counts("count_of_free_value_piece", guard(|| m.count_of_free_value_piece()), d.free_counts(false)) {
        return Some(e);
    }
    if let Some(e) = hist("key_piece_size_stats", guard(|| m.key_piece_size_stats().map(|s| s.to_string())), d.key_size_hist()) {
        return Some(e);
    }
    if let Some(e) = hist("value_piece_size_stats", guard(|| m.value_piece_size_stats().map(|s| s.to_string())), d.val_size_hist()) {
        return Some(e);
    }
    if let Some(e) = hist("key_length_stats", guard(|| m.key_length_stats().map(|s| s.to_string())), d.key_len_hist()) {
        return Some(e);
    }
    if let Some(e) = hist("value_length_stats", guard(|| m.value_length_stats().map(|s| s.to_string())), d.val_len_hist()) {
        return Some(e);
    }
    let exp = (d.nonempty, (d.nonempty * 1000 / d.n.max(1)) as u32);
    match guard(|| m.htx_filling_rate_per_mill()) {
        Out::Ok(got) if got == exp => None,
        Out::Ok(got) => Some(format!("htx_filling_rate_per_mill reports {:?} but {} of {} buckets are non-empty in the files", got, d.nonempty, d.n)),
        other => Some(format!("htx_filling_rate_per_mill {}", other.failed().unwrap_or_default())),
    }
}
