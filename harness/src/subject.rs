//! Thin, panic-safe access to the subject (the real abyssiniandb crate built from /repo).
#![allow(dead_code)]

use crate::util::{Buf, Rd};
use abyssiniandb::filedb::{FileBufSizeParam, FileDb, FileDbMap, FileDbParams, HashBucketsParam};
use abyssiniandb::{DbBytes, DbI64, DbString, DbU64, DbVu64};
use std::cell::RefCell;
use std::io;
use std::panic::{catch_unwind, AssertUnwindSafe};
use std::path::{Path, PathBuf};

// ---------------------------------------------------------------------------------------------
// key types

#[derive(Clone, Copy, PartialEq, Eq, Debug, PartialOrd, Ord, Hash)]
pub enum KtId {
    Bytes = 0,
    Str = 1,
    U64 = 2,
    I64 = 3,
    Vu64 = 4,
}

impl KtId {
    pub const ALL: [KtId; 5] = [KtId::Bytes, KtId::Str, KtId::U64, KtId::I64, KtId::Vu64];
    pub fn name(&self) -> &'static str {
        match self {
            KtId::Bytes => "bytes",
            KtId::Str => "string",
            KtId::U64 => "u64",
            KtId::I64 => "i64",
            KtId::Vu64 => "vu64",
        }
    }
    pub fn from_u8(v: u8) -> KtId {
        KtId::ALL[v as usize % 5]
    }
    pub fn from_name(s: &str) -> Option<KtId> {
        KtId::ALL.iter().copied().find(|k| k.name() == s)
    }
    /// the 8 byte type signature the documentation gives for the key type
    pub fn signature(&self) -> [u8; 8] {
        match self {
            KtId::Bytes => *b"bytes\0\0\0",
            KtId::Str => *b"string\0\0",
            KtId::U64 => *b"u64_le\0\0",
            KtId::I64 => *b"i64_le\0\0",
            KtId::Vu64 => *b"u64_le\0\0",
        }
    }
    /// are arbitrary byte strings legal keys of this type (the integer types accept bytes through
    /// `From<&[u8]>`, but the vu64 type can only compare well formed encodings)
    pub fn arbitrary_bytes_ok(&self) -> bool {
        !matches!(self, KtId::Vu64)
    }
}

pub trait Kt: abyssiniandb::DbMapKeyType + std::fmt::Display + for<'a> From<&'a [u8]> {
    const ID: KtId;
    fn open(db: &FileDb, name: &str, p: FileDbParams) -> io::Result<FileDbMap<Self>>;
    fn open_default(db: &FileDb, name: &str) -> io::Result<FileDbMap<Self>>;
}

impl Kt for DbBytes {
    const ID: KtId = KtId::Bytes;
    fn open(db: &FileDb, name: &str, p: FileDbParams) -> io::Result<FileDbMap<Self>> {
        db.db_map_bytes_with_params(name, p)
    }
    fn open_default(db: &FileDb, name: &str) -> io::Result<FileDbMap<Self>> {
        db.db_map_bytes(name)
    }
}
impl Kt for DbString {
    const ID: KtId = KtId::Str;
    fn open(db: &FileDb, name: &str, p: FileDbParams) -> io::Result<FileDbMap<Self>> {
        db.db_map_string_with_params(name, p)
    }
    fn open_default(db: &FileDb, name: &str) -> io::Result<FileDbMap<Self>> {
        db.db_map_string(name)
    }
}
impl Kt for DbU64 {
    const ID: KtId = KtId::U64;
    fn open(db: &FileDb, name: &str, p: FileDbParams) -> io::Result<FileDbMap<Self>> {
        db.db_map_u64_with_params(name, p)
    }
    fn open_default(db: &FileDb, name: &str) -> io::Result<FileDbMap<Self>> {
        db.db_map_u64(name)
    }
}
impl Kt for DbI64 {
    const ID: KtId = KtId::I64;
    fn open(db: &FileDb, name: &str, p: FileDbParams) -> io::Result<FileDbMap<Self>> {
        db.db_map_i64_with_params(name, p)
    }
    fn open_default(db: &FileDb, name: &str) -> io::Result<FileDbMap<Self>> {
        db.db_map_i64(name)
    }
}
impl Kt for DbVu64 {
    const ID: KtId = KtId::Vu64;
    fn open(db: &FileDb, name: &str, p: FileDbParams) -> io::Result<FileDbMap<Self>> {
        db.db_map_vu64_with_params(name, p)
    }
    fn open_default(db: &FileDb, name: &str) -> io::Result<FileDbMap<Self>> {
        db.db_map_vu64(name)
    }
}

/// run `$body` with the type alias `$T` bound to the key type selected by `$id`
#[macro_export]
macro_rules! with_kt {
    ($id:expr, $T:ident => $body:expr) => {
        match $id {
            $crate::subject::KtId::Bytes => {
                type $T = abyssiniandb::DbBytes;
                $body
            }
            $crate::subject::KtId::Str => {
                type $T = abyssiniandb::DbString;
                $body
            }
            $crate::subject::KtId::U64 => {
                type $T = abyssiniandb::DbU64;
                $body
            }
            $crate::subject::KtId::I64 => {
                type $T = abyssiniandb::DbI64;
                $body
            }
            $crate::subject::KtId::Vu64 => {
                type $T = abyssiniandb::DbVu64;
                $body
            }
        }
    };
}

// ---------------------------------------------------------------------------------------------
// parameters (a serialisable mirror of FileDbParams)

#[derive(Clone, Copy, PartialEq, Eq, Debug, Hash, PartialOrd, Ord)]
pub enum BufP {
    Auto,
    PerMille(u16),
    Size(u32),
}

#[derive(Clone, Copy, PartialEq, Eq, Debug, Hash, PartialOrd, Ord)]
pub enum HtP {
    Default,
    Buckets(u64),
    Capacity(u64),
}

#[derive(Clone, Copy, PartialEq, Eq, Debug, Hash, PartialOrd, Ord)]
pub struct Params {
    pub val: BufP,
    pub key: BufP,
    pub htx: BufP,
    pub ht: HtP,
}

impl BufP {
    fn real(&self) -> FileBufSizeParam {
        match *self {
            BufP::Auto => FileBufSizeParam::Auto,
            BufP::PerMille(p) => FileBufSizeParam::PerMille(p),
            BufP::Size(s) => FileBufSizeParam::Size(s),
        }
    }
    pub fn label(&self) -> String {
        match *self {
            BufP::Auto => "Auto".into(),
            BufP::PerMille(p) => format!("PerMille({p})"),
            BufP::Size(s) => format!("Size({s})"),
        }
    }
    fn enc(&self, b: &mut Buf) {
        match *self {
            BufP::Auto => {
                b.u8(0).u32(0);
            }
            BufP::PerMille(p) => {
                b.u8(1).u32(p as u32);
            }
            BufP::Size(s) => {
                b.u8(2).u32(s);
            }
        }
    }
    fn dec(r: &mut Rd) -> BufP {
        let t = r.u8();
        let v = r.u32();
        match t {
            1 => BufP::PerMille(v as u16),
            2 => BufP::Size(v),
            _ => BufP::Auto,
        }
    }
    pub fn parse(s: &str) -> Option<BufP> {
        if s == "Auto" {
            return Some(BufP::Auto);
        }
        if let Some(x) = s.strip_prefix("PerMille(") {
            return x.trim_end_matches(')').parse().ok().map(BufP::PerMille);
        }
        if let Some(x) = s.strip_prefix("Size(") {
            return x.trim_end_matches(')').parse().ok().map(BufP::Size);
        }
        None
    }
}

impl HtP {
    fn real(&self) -> HashBucketsParam {
        match *self {
            HtP::Default => HashBucketsParam::Default,
            HtP::Buckets(x) => HashBucketsParam::BucketsSize(x),
            HtP::Capacity(x) => HashBucketsParam::Capacity(x),
        }
    }
    pub fn label(&self) -> String {
        match *self {
            HtP::Default => "Default".into(),
            HtP::Buckets(x) => format!("BucketsSize({x})"),
            HtP::Capacity(x) => format!("Capacity({x})"),
        }
    }
    pub fn parse(s: &str) -> Option<HtP> {
        if s == "Default" {
            return Some(HtP::Default);
        }
        if let Some(x) = s.strip_prefix("BucketsSize(") {
            return x.trim_end_matches(')').parse().ok().map(HtP::Buckets);
        }
        if let Some(x) = s.strip_prefix("Capacity(") {
            return x.trim_end_matches(')').parse().ok().map(HtP::Capacity);
        }
        None
    }
    /// the table size the documentation promises for this parameter
    pub fn expected_buckets(&self) -> u64 {
        match *self {
            HtP::Default => 16 * 1024 * 1024,
            HtP::Buckets(x) => x.max(1).next_power_of_two(),
            HtP::Capacity(c) => {
                if c < 8 {
                    8
                } else {
                    (c + c / 8).next_power_of_two()
                }
            }
        }
    }
}

impl Params {
    pub fn defaults() -> Params {
        Params {
            val: BufP::Auto,
            key: BufP::PerMille(1000),
            htx: BufP::PerMille(1000),
            ht: HtP::Default,
        }
    }
    pub fn buckets(n: u64) -> Params {
        Params { ht: HtP::Buckets(n), ..Params::defaults() }
    }
    pub fn real(&self) -> FileDbParams {
        FileDbParams {
            val_buf_size: self.val.real(),
            key_buf_size: self.key.real(),
            idx_buf_size: FileBufSizeParam::PerMille(1000),
            htx_buf_size: self.htx.real(),
            buckets_size: self.ht.real(),
        }
    }
    pub fn label(&self) -> String {
        format!(
            "ht={} val={} key={} htx={}",
            self.ht.label(),
            self.val.label(),
            self.key.label(),
            self.htx.label()
        )
    }
    pub fn parse(s: &str) -> Option<Params> {
        let mut p = Params::defaults();
        for part in s.split_whitespace() {
            let (k, v) = part.split_once('=')?;
            match k {
                "ht" => p.ht = HtP::parse(v)?,
                "val" => p.val = BufP::parse(v)?,
                "key" => p.key = BufP::parse(v)?,
                "htx" => p.htx = BufP::parse(v)?,
                _ => return None,
            }
        }
        Some(p)
    }
    pub fn enc(&self, b: &mut Buf) {
        self.val.enc(b);
        self.key.enc(b);
        self.htx.enc(b);
        match self.ht {
            HtP::Default => {
                b.u8(0).u64(0);
            }
            HtP::Buckets(x) => {
                b.u8(1).u64(x);
            }
            HtP::Capacity(x) => {
                b.u8(2).u64(x);
            }
        }
    }
    pub fn dec(r: &mut Rd) -> Params {
        let val = BufP::dec(r);
        let key = BufP::dec(r);
        let htx = BufP::dec(r);
        let t = r.u8();
        let x = r.u64();
        let ht = match t {
            1 => HtP::Buckets(x),
            2 => HtP::Capacity(x),
            _ => HtP::Default,
        };
        Params { val, key, htx, ht }
    }
}

// ---------------------------------------------------------------------------------------------
// panic capture

thread_local! {
    static LAST_PANIC: RefCell<String> = RefCell::new(String::new());
}

pub fn install_quiet_panic_hook() {
    std::panic::set_hook(Box::new(|info| {
        let msg = if let Some(s) = info.payload().downcast_ref::<&str>() {
            s.to_string()
        } else if let Some(s) = info.payload().downcast_ref::<String>() {
            s.clone()
        } else {
            "panic".to_string()
        };
        let loc = info
            .location()
            .map(|l| format!(" at {}:{}", l.file(), l.line()))
            .unwrap_or_default();
        LAST_PANIC.with(|p| *p.borrow_mut() = format!("{msg}{loc}"));
    }));
}

#[derive(Debug, Clone, PartialEq)]
pub enum Out<T> {
    Ok(T),
    Err(String),
    Panic(String),
}

impl<T> Out<T> {
    pub fn is_ok(&self) -> bool {
        matches!(self, Out::Ok(_))
    }
    pub fn ok(self) -> Option<T> {
        match self {
            Out::Ok(v) => Some(v),
            _ => None,
        }
    }
    pub fn failed(&self) -> Option<String> {
        match self {
            Out::Ok(_) => None,
            Out::Err(e) => Some(format!("returned Err({e})")),
            Out::Panic(m) => Some(format!("panicked: {m}")),
        }
    }
}

/// run a fallible call of the subject, turning a panic into a value
pub fn guard<T>(f: impl FnOnce() -> io::Result<T>) -> Out<T> {
    match catch_unwind(AssertUnwindSafe(f)) {
        Ok(Ok(v)) => Out::Ok(v),
        Ok(Err(e)) => Out::Err(format!("{:?}: {}", e.kind(), e)),
        Err(_) => Out::Panic(LAST_PANIC.with(|p| p.borrow().clone())),
    }
}

/// run an infallible call of the subject (iterators, conversions), turning a panic into a value
pub fn guard_plain<T>(f: impl FnOnce() -> T) -> Out<T> {
    match catch_unwind(AssertUnwindSafe(f)) {
        Ok(v) => Out::Ok(v),
        Err(_) => Out::Panic(LAST_PANIC.with(|p| p.borrow().clone())),
    }
}

// ---------------------------------------------------------------------------------------------
// images: the exact bytes of the three files of one map

pub const MAP_NAME: &str = "m";

#[derive(Clone, PartialEq, Eq, Hash, Debug, Default)]
pub struct Image {
    pub htx: Vec<u8>,
    pub key: Vec<u8>,
    pub val: Vec<u8>,
}

impl Image {
    pub fn read(dir: &Path, name: &str) -> io::Result<Image> {
        Ok(Image {
            htx: std::fs::read(dir.join(format!("{name}.htx")))?,
            key: std::fs::read(dir.join(format!("{name}.key")))?,
            val: std::fs::read(dir.join(format!("{name}.val")))?,
        })
    }
    pub fn exists(dir: &Path, name: &str) -> bool {
        dir.join(format!("{name}.htx")).exists()
    }
    pub fn write(&self, dir: &Path, name: &str) -> io::Result<()> {
        std::fs::write(dir.join(format!("{name}.htx")), &self.htx)?;
        std::fs::write(dir.join(format!("{name}.key")), &self.key)?;
        std::fs::write(dir.join(format!("{name}.val")), &self.val)?;
        Ok(())
    }
    pub fn is_empty(&self) -> bool {
        self.htx.is_empty() && self.key.is_empty() && self.val.is_empty()
    }
    /// canonical compressed form (used as the exact state key of the search)
    pub fn pack(&self) -> Vec<u8> {
        let mut b = Buf::new();
        b.bytes(&crate::util::rle_compress(&self.htx));
        b.bytes(&crate::util::rle_compress(&self.key));
        b.bytes(&crate::util::rle_compress(&self.val));
        b.0
    }
    pub fn unpack(p: &[u8]) -> Image {
        let mut r = Rd::new(p);
        Image {
            htx: crate::util::rle_decompress(r.bytes()),
            key: crate::util::rle_decompress(r.bytes()),
            val: crate::util::rle_decompress(r.bytes()),
        }
    }
    /// compact form relative to a base image: per file the new length and the 64-byte blocks that
    /// differ from the base (bytes beyond the base count as zeros). Exact: unpack_delta(pack_delta(x)) = x.
    /// Images that share large untouched parts with the start image (seeded fillers) stay small.
    pub fn pack_delta(&self, base: &Image) -> Vec<u8> {
        fn one(b: &mut Buf, new: &[u8], base: &[u8]) {
            const BLK: usize = 64;
            b.u64(new.len() as u64);
            let mut chunks: Vec<(usize, usize)> = Vec::new();
            let mut i = 0;
            while i < new.len() {
                let hi = (i + BLK).min(new.len());
                let same = if hi <= base.len() { new[i..hi] == base[i..hi] } else { new[i..hi].iter().enumerate().all(|(j, x)| *x == base.get(i + j).copied().unwrap_or(0)) };
                if !same {
                    match chunks.last_mut() {
                        Some(last) if last.1 == i => last.1 = hi,
                        _ => chunks.push((i, hi)),
                    }
                }
                i = hi;
            }
            b.u32(chunks.len() as u32);
            for (lo, hi) in chunks {
                b.u64(lo as u64);
                b.bytes(&new[lo..hi]);
            }
        }
        let mut b = Buf::new();
        one(&mut b, &self.htx, &base.htx);
        one(&mut b, &self.key, &base.key);
        one(&mut b, &self.val, &base.val);
        b.0
    }
    pub fn unpack_delta(p: &[u8], base: &Image) -> Image {
        fn one(r: &mut Rd, base: &[u8]) -> Vec<u8> {
            let len = r.u64() as usize;
            let mut out = vec![0u8; len];
            let n = len.min(base.len());
            out[..n].copy_from_slice(&base[..n]);
            let c = r.u32();
            for _ in 0..c {
                let lo = r.u64() as usize;
                let bytes = r.bytes();
                out[lo..lo + bytes.len()].copy_from_slice(bytes);
            }
            out
        }
        let mut r = Rd::new(p);
        let htx = one(&mut r, &base.htx);
        let key = one(&mut r, &base.key);
        let val = one(&mut r, &base.val);
        Image { htx, key, val }
    }
    pub fn sizes(&self) -> (usize, usize, usize) {
        (self.htx.len(), self.key.len(), self.val.len())
    }
    pub fn describe_diff(&self, other: &Image) -> String {
        let mut s = String::new();
        for (n, a, b) in [("htx", &self.htx, &other.htx), ("key", &self.key, &other.key), ("val", &self.val, &other.val)] {
            if a != b {
                let first = a.iter().zip(b.iter()).position(|(x, y)| x != y).unwrap_or(a.len().min(b.len()));
                s.push_str(&format!(".{n}: lengths {}/{} first difference at byte {first}; ", a.len(), b.len()));
            }
        }
        s
    }
}

// ---------------------------------------------------------------------------------------------
// scratch directories

pub struct Scratch {
    pub root: PathBuf,
    counter: std::cell::Cell<u64>,
}

impl Scratch {
    /// a private directory for this process below $ABYV_SCRATCH (or /dev/shm)
    pub fn new(tag: &str) -> Scratch {
        let base = std::env::var("ABYV_SCRATCH").unwrap_or_else(|_| if Path::new("/dev/shm").is_dir() { "/dev/shm".to_string() } else { std::env::temp_dir().display().to_string() });
        let root = PathBuf::from(base).join(format!("abyv.{}.{}", std::process::id(), tag));
        let _ = std::fs::remove_dir_all(&root);
        std::fs::create_dir_all(&root).expect("cannot create scratch directory");
        Scratch { root, counter: std::cell::Cell::new(0) }
    }
    /// an empty sub directory with a fixed name (recreated)
    pub fn fresh(&self, name: &str) -> PathBuf {
        let p = self.root.join(name);
        let _ = std::fs::remove_dir_all(&p);
        std::fs::create_dir_all(&p).expect("cannot create scratch sub directory");
        p
    }
    /// an empty sub directory with a new name
    pub fn unique(&self) -> PathBuf {
        let c = self.counter.get();
        self.counter.set(c + 1);
        self.fresh(&format!("u{c}"))
    }
}

impl Drop for Scratch {
    fn drop(&mut self) {
        let _ = std::fs::remove_dir_all(&self.root);
    }
}

pub fn clear_dir(dir: &Path) {
    if let Ok(rd) = std::fs::read_dir(dir) {
        for e in rd.flatten() {
            let p = e.path();
            if p.is_dir() {
                let _ = std::fs::remove_dir_all(&p);
            } else {
                let _ = std::fs::remove_file(&p);
            }
        }
    }
}

/// open database + map in `dir` in one step
pub fn open_map<T: Kt>(dir: &Path, name: &str, p: &Params) -> Out<(FileDb, FileDbMap<T>)> {
    let dir = dir.to_path_buf();
    let name = name.to_string();
    let rp = p.real();
    guard(move || {
        let db = abyssiniandb::open_file(&dir)?;
        let m = T::open(&db, &name, rp)?;
        Ok((db, m))
    })
}
