//! C08: record relocation and chain re-linking — closures over all-colliding key sets, from the
//! empty map and from seeded images around the offset-encoding width boundaries.
#![allow(dead_code)]

use crate::alphabet::*;
use crate::decoder::{self, Clause};
use crate::engine_a::*;
use crate::props_a::*;
use crate::subject::*;

/// split `p` (a multiple of 8, p != 8) into slot classes below 128
fn decompose(mut p: u64) -> Vec<u64> {
    let mut out = Vec::new();
    let cls = [112u64, 96, 80, 64, 48, 32, 24, 16];
    while p > 0 {
        let mut took = false;
        for c in cls {
            if c <= p && p - c != 8 {
                out.push(c);
                p -= c;
                took = true;
                break;
            }
        }
        if !took {
            break;
        }
    }
    out
}

pub struct SeedSpec {
    pub file: &'static str, // "val" | "key" | "both"
    pub boundary: u64,
    pub eps: u64,
    pub free_slots: usize,
    /// an extra filler value of this many bytes, so that value offsets are beyond 1 KiB (0 = none; an odd
    /// length: the filler is stored before the slots that are freed, so that those lie beyond 1 KiB too)
    pub val_pad: u64,
}

/// steps (run by the real code) that bring the end of the chosen file to `boundary - eps`, with
/// `free_slots` freed small slots below it; filler keys live in another bucket than the alphabet
pub fn seed_steps(kt: KtId, n: u64, filler_bucket: u64, spec: &SeedSpec, seed: u64, exclude: &[Vec<u8>]) -> (Vec<Step>, Vec<(Vec<u8>, Vec<u8>)>) {
    let mut steps = Vec::new();
    let mut live: Vec<(Vec<u8>, Vec<u8>)> = Vec::new();
    let mut used: Vec<Vec<u8>> = exclude.to_vec();
    let mut filler_no = 0u64;
    let mut next_key = |len: usize, used: &mut Vec<Vec<u8>>| -> Vec<u8> {
        filler_no += 1;
        let k = keys_in_bucket(kt, n, filler_bucket, 1, len, seed ^ (0xF111 + filler_no * 7919), used).pop().unwrap();
        used.push(k.clone());
        k
    };
    let byte_keys = matches!(kt, KtId::Bytes | KtId::Str);
    let small_key_len = if byte_keys { 8 } else { 8 };
    // bookkeeping of both files while the steps are laid out (fresh map: no free slots are reused
    // because the frees happen at the very end)
    let mut val_end: u64 = 192;
    let mut key_end: u64 = 192;
    let mut to_free: Vec<Vec<u8>> = Vec::new();
    let mut put = |k: Vec<u8>, vlen: u64, steps: &mut Vec<Step>, live: &mut Vec<(Vec<u8>, Vec<u8>)>, val_end: &mut u64, key_end: &mut u64, first: bool| {
        let v = value_bytes(seed, 900 + live.len() as u64, 7, vlen as usize);
        let vs = decoder::value_slot_for(vlen);
        let ks = decoder::key_slot_for(k.len() as u64, *val_end, if first { 0 } else { 192 });
        *val_end += vs;
        *key_end += ks;
        steps.push(Step::Put(k.clone(), v.clone()));
        live.push((k, v));
    };
    // 1. slots that will be freed at the end (value slots of 16, 24 and 256 bytes; key slots of 16/24)
    let free_val_lens = [3u64, 20, 200, 20];
    // an odd val_pad means: the pad entry comes first, so that the freed slots (and whatever reuses them) lie beyond it
    if spec.val_pad % 2 == 1 {
        let k = next_key(small_key_len, &mut used);
        let first = live.is_empty();
        put(k, spec.val_pad, &mut steps, &mut live, &mut val_end, &mut key_end, first);
    }
    for i in 0..spec.free_slots {
        let k = next_key(small_key_len, &mut used);
        to_free.push(k.clone());
        let first = live.is_empty();
        put(k, free_val_lens[i % free_val_lens.len()], &mut steps, &mut live, &mut val_end, &mut key_end, first);
    }
    if spec.val_pad > 0 && spec.val_pad % 2 == 0 {
        let k = next_key(small_key_len, &mut used);
        let first = live.is_empty();
        put(k, spec.val_pad, &mut steps, &mut live, &mut val_end, &mut key_end, first);
    }
    // 2. alignment + big filler
    let cls = [16u64, 24, 32, 48, 64, 80, 96, 112];
    if spec.file == "both" && byte_keys {
        let target = spec.boundary - spec.eps;
        // big key fillers first (each adds a 16 byte value slot)
        while target > key_end + 61_000 + 2048 {
            let k = next_key(59_968 - 64, &mut used);
            let first = live.is_empty();
            put(k, 1, &mut steps, &mut live, &mut val_end, &mut key_end, first);
        }
        // the two final big fillers add (+16 key, +big val) and (+big key, +16 val); find small
        // entries (x dummies of +16/+16, at most two entries with a chosen value slot, at most two
        // with a chosen key slot) that make both remainders multiples of 128
        let dk = (target + (1 << 30) - (key_end + 16)) % 128;
        let dv = (target + (1 << 30) - (val_end + 16)) % 128;
        let mut plan: Option<(u64, Vec<u64>, Vec<u64>)> = None;
        let opts: Vec<Vec<u64>> = {
            let mut o: Vec<Vec<u64>> = vec![vec![]];
            for a in cls {
                o.push(vec![a]);
                for b in cls {
                    if b >= a {
                        o.push(vec![a, b]);
                    }
                }
            }
            o
        };
        'search: for x in 0..8u64 {
            for va in &opts {
                for ka in &opts {
                    let key_add = 16 * x + 16 * va.len() as u64 + ka.iter().sum::<u64>();
                    let val_add = 16 * x + va.iter().sum::<u64>() + 16 * ka.len() as u64;
                    if key_add % 128 == dk && val_add % 128 == dv {
                        plan = Some((x, va.clone(), ka.clone()));
                        break 'search;
                    }
                }
            }
        }
        if let Some((x, va, ka)) = plan {
            for _ in 0..x {
                let k = next_key(small_key_len, &mut used);
                let first = live.is_empty();
                put(k, 3, &mut steps, &mut live, &mut val_end, &mut key_end, first);
            }
            for s in va {
                let k = next_key(small_key_len, &mut used);
                let first = live.is_empty();
                put(k, if s == 16 { 3 } else { s - 4 }, &mut steps, &mut live, &mut val_end, &mut key_end, first);
            }
            for s in ka {
                let k = next_key((s - 8) as usize, &mut used);
                let first = live.is_empty();
                put(k, 1, &mut steps, &mut live, &mut val_end, &mut key_end, first);
            }
            let big_k = target - (key_end + 16);
            let big_v = target - (val_end + 16);
            if big_v >= 1024 {
                let k = next_key(small_key_len, &mut used);
                let first = live.is_empty();
                put(k, big_v - 64, &mut steps, &mut live, &mut val_end, &mut key_end, first);
            }
            if big_k >= 1024 {
                let k = next_key((big_k - 64) as usize, &mut used);
                let first = live.is_empty();
                put(k, 1, &mut steps, &mut live, &mut val_end, &mut key_end, first);
            }
        }
    }
    if spec.file == "val" {
        let target = spec.boundary - spec.eps;
        let mut p = (target + 128 * 1024 * 1024 - val_end) % 128;
        if p == 8 {
            p += 128;
        }
        for s in decompose(p) {
            let k = next_key(small_key_len, &mut used);
            let first = live.is_empty();
            put(k, s - 4, &mut steps, &mut live, &mut val_end, &mut key_end, first);
        }
        let big = target - val_end;
        if big >= 1024 {
            let k = next_key(small_key_len, &mut used);
            let first = live.is_empty();
            put(k, big - 64, &mut steps, &mut live, &mut val_end, &mut key_end, first);
        }
    }
    if spec.file == "key" && byte_keys {
        let target = spec.boundary - spec.eps;
        // big filler keys of at most 60000 bytes each, then alignment with small keys
        while target > key_end + 61_000 {
            let k = next_key(59_968 - 64, &mut used);
            let first = live.is_empty();
            put(k, 1, &mut steps, &mut live, &mut val_end, &mut key_end, first);
        }
        let mut p = (target + 128 * 1024 * 1024 - key_end) % 128;
        if p == 8 {
            p += 128;
        }
        for s in decompose(p) {
            let k = next_key((s - 8) as usize, &mut used);
            let first = live.is_empty();
            put(k, 1, &mut steps, &mut live, &mut val_end, &mut key_end, first);
        }
        let big = target.saturating_sub(key_end);
        if big >= 1024 {
            let k = next_key((big - 64) as usize, &mut used);
            let first = live.is_empty();
            put(k, 1, &mut steps, &mut live, &mut val_end, &mut key_end, first);
        }
    }
    for k in to_free {
        steps.push(Step::Del(k.clone()));
        live.retain(|(lk, _)| *lk != k);
    }
    (steps, live)
}

pub fn c08_alpha(keys: usize) -> Alpha {
    // key lengths whose records sit exactly on (or one byte below) a slot class edge
    // estimated record = 1 + 1 + len + width(value offset) + width(link); offsets below 16 KiB are
    // estimated 2 bytes wide, the link of a chain tail 1 byte:
    //   len 11: 16 as tail/only | len 10: 16 as head/middle | len 18: 24 as head/middle | len 19: 24 as tail
    let lens = [11usize, 10, 18, 19];
    Alpha { label: "colliding keys with records on slot-class edges x {3,20,200}", colliding: lens[..keys].to_vec(), other: vec![], vals: vec![3, 20, 200] }
}

pub fn seeded_runs(ctx: &mut Ctx, prop: &str, oracles: u32, clauses: u32, quick_only: bool) {
    let thorough = ctx.thorough() && !quick_only;
    let mut specs: Vec<SeedSpec> = Vec::new();
    if thorough {
        for b in [16 * 1024u64, 128 * 1024, 2 * 1024 * 1024] {
            for file in ["val", "key", "both"] {
                for eps in [0u64, 16, 48] {
                    for free_slots in [0usize, 2] {
                        specs.push(SeedSpec { file, boundary: b, eps, free_slots, val_pad: 0 });
                    }
                }
            }
        }
        seeded_group(ctx, prop, oracles, clauses, 3, vec![3, 20, 200], &specs, 400_000, 30.0);
        let specs16m = vec![SeedSpec { file: "val", boundary: 16 * 1024 * 1024, eps: 16, free_slots: 2, val_pad: 0 }, SeedSpec { file: "val", boundary: 16 * 1024 * 1024, eps: 0, free_slots: 0, val_pad: 0 }];
        seeded_group(ctx, prop, oracles, clauses, 2, vec![3, 200], &specs16m, 100_000, 120.0);
    } else {
        for (file, eps, free_slots) in [("val", 16u64, 0usize), ("val", 0, 2), ("key", 16, 0), ("key", 0, 2), ("both", 16, 2)] {
            specs.push(SeedSpec { file, boundary: 16 * 1024, eps, free_slots, val_pad: 0 });
        }
        seeded_group(ctx, prop, oracles, clauses, 2, vec![3, 200], &specs, 60_000, 10.0);
        if !quick_only {
            // chain links that need three bytes on disk (key file beyond 128 KiB) while value offsets need two
            let specs128 = vec![SeedSpec { file: "key", boundary: 128 * 1024, eps: 0, free_slots: 2, val_pad: 1200 }, SeedSpec { file: "val", boundary: 128 * 1024, eps: 16, free_slots: 2, val_pad: 0 }];
            seeded_group(ctx, prop, oracles, clauses, 2, vec![3, 200], &specs128, 30_000, 8.0);
        }
        if !quick_only {
            // value offsets that need four bytes on disk (value file beyond 16 MiB): the chain head's record is rewritten
            let specs16m = vec![SeedSpec { file: "val", boundary: 16 * 1024 * 1024, eps: 16, free_slots: 2, val_pad: 0 }];
            seeded_group(ctx, prop, oracles, clauses, 2, vec![3, 200], &specs16m, 120, 15.0);
        }
        if !quick_only {
            let specs3 = vec![SeedSpec { file: "val", boundary: 16 * 1024, eps: 16, free_slots: 0 , val_pad: 0}, SeedSpec { file: "key", boundary: 16 * 1024, eps: 16, free_slots: 0 , val_pad: 0}];
            seeded_group(ctx, prop, oracles, clauses, 3, vec![3, 200], &specs3, 60_000, 3.0);
        }
    }
}

#[allow(clippy::too_many_arguments)]
pub fn seeded_group_ro(ctx: &mut Ctx, prop: &str, oracles: u32, ro_mode: u8, nkeys: usize, vals: Vec<u32>, specs: &[SeedSpec], cap: usize, secs: f64) {
    RO_MODE.with(|m| m.set(ro_mode));
    seeded_group(ctx, prop, oracles, 0, nkeys, vals, specs, cap, secs);
    RO_MODE.with(|m| m.set(0));
}

thread_local! {
    static RO_MODE: std::cell::Cell<u8> = std::cell::Cell::new(0);
}

#[allow(clippy::too_many_arguments)]
pub fn seeded_group(ctx: &mut Ctx, prop: &str, oracles: u32, clauses: u32, nkeys: usize, vals: Vec<u32>, specs: &[SeedSpec], cap: usize, secs: f64) {
    let seed = ctx.seed;
    let n = 8u64;
    let kt = KtId::Bytes;
    let mut alpha = c08_alpha(nkeys);
    alpha.vals = vals;
    let mut cfg = make_cfg(prop, kt, n, &alpha, seed);
    cfg.oracles = oracles;
    cfg.clauses = clauses;
    cfg.ro_mode = RO_MODE.with(|m| m.get());
    // below the alphabet's bucket (3) and in the same group of eight: emptying the alphabet's bucket must leave it visible
    let filler_bucket = 1u64;
    // all seeds share the filler keys' bucket; every seed gets its own closure (its extras differ)
    let mut group_states = 0usize;
    for spec in specs.iter() {
        let (steps, live) = seed_steps(kt, n, filler_bucket, spec, seed, &cfg.keys);
        let label = format!("seed: end of .{} at {} - {} with {} freed slots below", spec.file, spec.boundary, spec.eps, spec.free_slots);
        let image = match build_image(&ctx.pool, kt, &cfg.params[0], &steps) {
            Ok(i) => i,
            Err(e) => {
                ctx.run.notes.push(format!("{label}: the real code could not build the seed image: {e}"));
                ctx.run.add("seed_images_not_built", 1);
                continue;
            }
        };
        let d = decoder::decode(&image.htx, &image.key, &image.val);
        let want = spec.boundary - spec.eps;
        let got_val = image.val.len() as u64;
        let got_key = image.key.len() as u64;
        let hit = match spec.file {
            "val" => got_val == want,
            "key" => got_key == want,
            _ => got_val == want && got_key == want,
        };
        if !hit || !d.errors.is_empty() {
            ctx.run.notes.push(format!("{label}: seed arithmetic missed (val end {got_val}, key end {got_key}, decode errors {:?}); seed skipped", d.errors.first()));
            ctx.run.add("seed_images_missed", 1);
            continue;
        }
        let mut c = cfg.clone();
        c.extras = live.iter().cloned().collect();
        let start = Start { label: label.clone(), image, code: vec![0; c.keys.len()] };
        if let Some(st) = run_closure(ctx, &label, &c, vec![start], cap, secs) {
            group_states += st.states;
        }
        if ctx.run.too_many() || !ctx.run.violations.is_empty() {
            break;
        }
    }
    ctx.run.add("seeded_states", group_states as i64);
}

pub fn c08(tier: &str, seed: u64) -> i32 {
    let mut ctx = Ctx::new("C08", tier, seed, "model_checking");
    let thorough = ctx.thorough();
    let clauses = clause_mask(&[Clause::Chain, Clause::Placement, Clause::DupKey, Clause::ValueRef, Clause::Overflow, Clause::Count, Clause::Bitmap, Clause::Partition, Clause::Tiling, Clause::FreeList]);
    let o = O_API | O_DEC | O_DEC_CONTENTS | O_RELOC;
    // from the empty map: 3 (quick) / 4 (thorough) colliding keys, small and large values (offsets cross 1 KiB)
    {
        let mut a = c08_alpha(if thorough { 4 } else { 3 });
        a.vals = if thorough { vec![3, 20, 200] } else { vec![3, 200] };
        let mut cfg = make_cfg("C08", KtId::Bytes, 8, &a, seed);
        cfg.oracles = o;
        cfg.clauses = clauses;
        let starts: Vec<Start> = empty_start(&mut ctx, &cfg).into_iter().collect();
        let (cap, secs) = if thorough { (1_500_000, 300.0) } else { (150_000, 4.0) };
        run_closure(&mut ctx, &format!("{} from the empty map [bytes]", a.label), &cfg, starts, cap, secs);
    }
    {
        // value offsets cross the 1 KiB width boundary (1 -> 2 bytes) inside the closure
        let a = Alpha { label: "2 colliding keys on class edges x {20,600,1000}", colliding: vec![12, 11], other: vec![], vals: vec![20, 600, 1000] };
        let mut cfg = make_cfg("C08", KtId::Bytes, 8, &a, seed);
        cfg.oracles = o;
        cfg.clauses = clauses;
        let starts: Vec<Start> = empty_start(&mut ctx, &cfg).into_iter().collect();
        let (cap, secs) = if thorough { (1_000_000, 200.0) } else { (100_000, 3.0) };
        run_closure(&mut ctx, &format!("{} from the empty map [bytes]", a.label), &cfg, starts, cap, secs);
    }
    {
        // overwrites among sizes of the shared large list (first-fit reuse while chains are re-linked)
        let a = Alpha { label: "2 colliding keys on class edges x {20,1000,1500,3000}", colliding: vec![11, 10], other: vec![], vals: vec![20, 1000, 1500, 3000] };
        let mut cfg = make_cfg("C08", KtId::Bytes, 8, &a, seed);
        cfg.oracles = o;
        cfg.clauses = clauses;
        let starts: Vec<Start> = empty_start(&mut ctx, &cfg).into_iter().collect();
        let (cap, secs) = if thorough { (1_000_000, 200.0) } else { (100_000, 3.0) };
        run_closure(&mut ctx, &format!("{} from the empty map [bytes]", a.label), &cfg, starts, cap, secs);
    }
    if thorough {
        for kt in [KtId::Str, KtId::U64, KtId::Vu64] {
            let a = Alpha { label: "3 colliding keys x {3,600,1000}", colliding: vec![12, 11, 20], other: vec![], vals: vec![3, 600, 1000] };
            let mut cfg = make_cfg("C08", kt, 8, &a, seed);
            cfg.oracles = o;
            cfg.clauses = clauses;
            let starts: Vec<Start> = empty_start(&mut ctx, &cfg).into_iter().collect();
            run_closure(&mut ctx, &format!("{} from the empty map [{}]", a.label, kt.name()), &cfg, starts, 300_000, 90.0);
        }
    }
    if ctx.run.violations.is_empty() {
        crate::props_a::non_utf8_closure(&mut ctx, "C08", o, clauses);
    }
    if ctx.run.violations.is_empty() {
        // "a value of any other length": overwrites between the largest length of a slot class, one byte more and the next class
        crate::props_a::class_ladder(&mut ctx, "C08", o, clauses, false, if thorough { 1 } else { 2 });
    }
    if ctx.run.violations.is_empty() {
        seeded_runs(&mut ctx, "C08", o, clauses, false);
    }
    if ctx.run.violations.is_empty() {
        sparse_offsets_pass(&mut ctx, if thorough { 5 } else { 4 });
    }
    let rule = "explicit-state search over on-disk images (see C01) on key sets that all collide in one bucket, key lengths chosen so that the key record sits exactly on / one byte below a slot-class edge, from the empty map and from seeded images (built by the real code) whose .val/.key end lies at an offset-width boundary minus {0,16,48} with freed slots below; oracle: every call result and every get/len on every state equal the model (affected key and all others), the independent decoder accepts every state and recovers the model; non-trivial = transitions that really moved a key record (counters key_record_moved_* by chain position) or a value record across an offset width";
    ctx.finish_model_checking(rule, &["key_record_moved", "value_record_moved"])
}


// ---------------------------------------------------------------------------------------------
// offsets beyond what an image search can materialise: the files of a small map are extended with a hole
// (set_len: no bytes are written) to just below a boundary at which an offset needs one more byte, and every
// short history over three colliding keys is run there on a live handle and after a re-open

pub const JOB_C08_SPARSE: u8 = 72;

/// boundaries: raw-offset width steps 256 MiB and 32 GiB, written-offset (offset/8) width step 2 GiB
pub const SPARSE_BOUNDARIES: [u64; 3] = [1 << 28, 1 << 31, 1 << 35];

fn sparse_one(dir: &std::path::Path, which: u8, boundary: u64, eps: u64, seq: &[u8], seed: u64) -> Result<(), String> {
    use abyssiniandb::{DbXxx, DbXxxBase};
    use std::collections::BTreeMap;
    clear_dir(dir);
    let p = Params::buckets(1);
    // keys of 11, 10 and 18 bytes (records that fill their slots exactly at some offset widths), values of 3 and 200 bytes
    let keys: Vec<Vec<u8>> = vec![b"sparse-k-11".to_vec(), b"sparse-k10".to_vec(), b"sparse-key-of-18-by".to_vec()[..18].to_vec()];
    let vals: Vec<Vec<u8>> = vec![value_bytes(seed, 1, 0, 3), value_bytes(seed, 2, 1, 200)];
    let filler_k = b"filler-entry".to_vec();
    let filler_v = value_bytes(seed, 9, 9, 40);
    let mut model: BTreeMap<Vec<u8>, Vec<u8>> = BTreeMap::new();
    {
        let (db, mut m) = match open_map::<abyssiniandb::DbBytes>(dir, MAP_NAME, &p) {
            Out::Ok(x) => x,
            o => return Err(format!("open {}", o.failed().unwrap_or_default())),
        };
        if guard(|| m.put(&filler_k[..], &filler_v)) != Out::Ok(()) {
            return Err("put of the filler entry fails".into());
        }
        model.insert(filler_k.clone(), filler_v.clone());
        let _ = guard_plain(move || {
            drop(m);
            drop(db);
        });
    }
    // the holes
    for (bit, ext) in [(1u8, "val"), (2u8, "key")] {
        if which & bit != 0 {
            let path = dir.join(format!("{MAP_NAME}.{ext}"));
            let f = std::fs::OpenOptions::new().write(true).open(&path).map_err(|e| format!("machinery: {e}"))?;
            f.set_len(boundary - eps).map_err(|e| format!("machinery: set_len: {e}"))?;
        }
    }
    let check = |m: &mut abyssiniandb::filedb::FileDbMap<abyssiniandb::DbBytes>, model: &BTreeMap<Vec<u8>, Vec<u8>>, when: &str| -> Result<(), String> {
        for k in keys.iter().chain(std::iter::once(&filler_k)) {
            let exp = model.get(k).cloned();
            let r = guard(|| m.get(&k[..]));
            if r != Out::Ok(exp.clone()) {
                return Err(format!("{when}: get({}) gives {} but the model says {}", crate::util::show(k), match &r { Out::Ok(g) => g.as_ref().map(|v| crate::util::show(v)).unwrap_or("None".into()), o => o.failed().unwrap_or_default() }, exp.as_ref().map(|v| crate::util::show(v)).unwrap_or("None".into())));
            }
        }
        if guard(|| m.len()) != Out::Ok(model.len() as u64) {
            return Err(format!("{when}: len() differs from the model's {}", model.len()));
        }
        Ok(())
    };
    let (db, mut m) = match open_map::<abyssiniandb::DbBytes>(dir, MAP_NAME, &p) {
        Out::Ok(x) => x,
        o => return Err(format!("re-open after the extension {}", o.failed().unwrap_or_default())),
    };
    for (pos, l) in seq.iter().enumerate() {
        let (ki, op) = ((l / 3) as usize % 3, l % 3);
        let k = &keys[ki];
        let what;
        if op < 2 {
            let v = &vals[op as usize];
            what = format!("call {}: put(k{ki}, {} bytes)", pos + 1, v.len());
            let r = guard(|| m.put(&k[..], v));
            if r != Out::Ok(()) {
                return Err(format!("{what} {}", r.failed().unwrap_or_default()));
            }
            model.insert(k.clone(), v.clone());
        } else {
            what = format!("call {}: delete(k{ki})", pos + 1);
            let exp = model.remove(k);
            let r = guard(|| m.delete(&k[..]));
            if r != Out::Ok(exp) {
                return Err(format!("{what} returns a wrong value or fails: {:?}", r.failed()));
            }
        }
        check(&mut m, &model, &format!("after {what}"))?;
    }
    let _ = guard_plain(move || {
        drop(m);
        drop(db);
    });
    let (db, mut m) = match open_map::<abyssiniandb::DbBytes>(dir, MAP_NAME, &p) {
        Out::Ok(x) => x,
        o => return Err(format!("re-open after the history {}", o.failed().unwrap_or_default())),
    };
    check(&mut m, &model, "after close and re-open")?;
    let _ = guard_plain(move || {
        drop(m);
        drop(db);
    });
    Ok(())
}

pub fn sparse_job(payload: &[u8], io: &mut crate::pool::WorkerIo) -> Vec<u8> {
    let mut r = crate::util::Rd::new(payload);
    let which = r.u8();
    let boundary = r.u64();
    let eps = r.u64();
    let seed = r.u64();
    let depth = r.u8() as usize;
    let lo = r.u64();
    let hi = r.u64();
    let scratch = Scratch::new("c08sparse");
    let dir = scratch.fresh("d");
    let mut out = crate::util::Buf::new();
    let mut done = 0u64;
    for idx in lo..hi {
        io.progress(idx);
        let mut seq = vec![0u8; depth];
        let mut x = idx;
        for p in (0..depth).rev() {
            seq[p] = (x % 9) as u8;
            x /= 9;
        }
        match sparse_one(&dir, which, boundary, eps, &seq, seed) {
            Ok(()) => done += 1,
            Err(e) => {
                out.u8(1).u64(done).u64(idx).str(&e);
                return out.0;
            }
        }
    }
    out.u8(0).u64(done);
    out.0
}

pub fn sparse_offsets_pass(ctx: &mut Ctx, depth: u8) {
    use crate::pool::JobResult;
    use crate::util::{Buf, Rd, J};
    let seed = ctx.seed;
    ctx.pool.reinit(vec![]);
    let total = 9u64.pow(depth as u32);
    let mut jobs: Vec<(String, Vec<u8>)> = Vec::new();
    for b in SPARSE_BOUNDARIES {
        for which in [1u8, 2, 3] {
            let label = format!("{} extended to {} - 64 bytes", match which { 1 => ".val", 2 => ".key", _ => ".val and .key" }, b);
            let per = total.div_ceil(4);
            let mut lo = 0;
            while lo < total {
                let hi = (lo + per).min(total);
                let mut p = Buf::new();
                p.u8(JOB_C08_SPARSE).u8(which).u64(b).u64(64).u64(seed).u8(depth).u64(lo).u64(hi);
                jobs.push((label.clone(), p.0));
                lo = hi;
            }
        }
    }
    let t0 = ctx.run.elapsed();
    let payloads: Vec<Vec<u8>> = jobs.iter().map(|j| j.1.clone()).collect();
    let results = ctx.pool.map(&payloads, |i| i);
    let mut done = 0u64;
    for (i, res) in results.into_iter().enumerate() {
        let label = &jobs[i].0;
        let report = |ctx: &mut Ctx, key: String, msg: String, idx: u64| {
            let mut p = Buf::new();
            let mut r = Rd::new(&jobs[i].1[1..]);
            let (which, b, eps, sd, d) = (r.u8(), r.u64(), r.u64(), r.u64(), r.u8());
            p.u8(JOB_C08_SPARSE).u8(which).u64(b).u64(eps).u64(sd).u8(d).u64(idx).u64(idx + 1);
            ctx.run.violation(crate::report::Violation { prop: "C08".into(), key, message: format!("{label}: {msg}"), replay: crate::report::Replay { engine: "C08s".into(), config: p.0, case: vec![], story: vec![label.clone(), "a one-bucket map with one filler entry is created and closed, the file(s) extended with a hole (set_len), then the history runs on a fresh handle".into(), msg] } });
        };
        match res {
            JobResult::Done(b) => {
                let mut r = Rd::new(&b);
                if r.u8() == 0 {
                    done += r.u64();
                } else {
                    done += r.u64();
                    let idx = r.u64();
                    let msg = r.string();
                    if msg.starts_with("machinery:") {
                        ctx.run.notes.push(format!("{label}: {msg} (sparse files not available here; pass skipped)"));
                        continue;
                    }
                    report(ctx, format!("sparse:{}", if msg.contains("panicked") { "panic" } else { "wrong-result" }), msg, idx);
                }
            }
            JobResult::Crashed { progress, how } => {
                let kind = if how.contains("hang") { "hang" } else { "abort" };
                report(ctx, format!("sparse:{kind}"), format!("the history does not return normally: {how}"), progress.unwrap_or(0));
            }
        }
    }
    eprintln!("[C08] sparse offsets: {} histories of depth {depth} at {} boundaries x 3 file choices {:.1}s", done, SPARSE_BOUNDARIES.len(), ctx.run.elapsed() - t0);
    ctx.run.add("sparse_offset_histories", done as i64);
    ctx.states += done;
    ctx.transitions += done * depth as u64;
    ctx.runs.push(J::obj(vec![("label", J::s("offsets beyond what can be materialised: .val / .key / both extended with a hole to 256 MiB, 2 GiB and 32 GiB minus 64 bytes; every history of the depth over put (3 or 200 bytes) / delete on three colliding keys whose records fill their slots exactly, on a live handle and after a re-open, against the model")), ("depth", J::Int(depth as i64)), ("histories", J::Int(done as i64))]));
}

pub fn replay_sparse(config: &[u8]) -> i32 {
    let mut io = crate::pool::WorkerIo::sink();
    let b = sparse_job(&config[1..], &mut io);
    let mut r = crate::util::Rd::new(&b);
    if r.u8() == 0 {
        println!("REPLAY: no violation reproduced");
        0
    } else {
        let _ = r.u64();
        let _ = r.u64();
        println!("REPLAY VIOLATION: {}", r.string());
        1
    }
}
