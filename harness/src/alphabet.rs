//! Alphabets: concrete keys (hash pre-images for a chosen bucket), value lengths, parameter sets.
#![allow(dead_code)]

use crate::decoder::{place_hash, vu_encode};
use crate::subject::*;
use crate::util::SplitMix;

/// encoding of integer `x` as the key bytes of key type `kt`
pub fn int_key(kt: KtId, x: u64) -> Vec<u8> {
    match kt {
        KtId::Vu64 => vu_encode(x),
        KtId::U64 | KtId::I64 => x.to_le_bytes().to_vec(),
        // the string/bytes types convert an integer big endian
        KtId::Bytes | KtId::Str => x.to_be_bytes().to_vec(),
    }
}

/// `count` distinct keys of type `kt` that the documented placement hash sends to `bucket` of a
/// table of `n` buckets. Byte-string types get keys of exactly `len` bytes (printable for the
/// string type); integer types get encodings of integers (the length is what the type gives).
pub fn keys_in_bucket(kt: KtId, n: u64, bucket: u64, count: usize, len: usize, seed: u64, exclude: &[Vec<u8>]) -> Vec<Vec<u8>> {
    let mut out: Vec<Vec<u8>> = Vec::new();
    let mut rng = SplitMix(seed ^ 0xABCD_0000 ^ (len as u64) << 32 ^ bucket);
    let mut tries = 0u64;
    while out.len() < count {
        tries += 1;
        if tries > 50_000_000 {
            crate::report::machinery_failure("key search did not find a hash pre-image");
        }
        let k: Vec<u8> = match kt {
            KtId::Bytes | KtId::Str => {
                if len == 0 {
                    Vec::new()
                } else {
                    let mut k = Vec::with_capacity(len);
                    let mut x = rng.next();
                    for i in 0..len {
                        if i % 8 == 0 {
                            x = rng.next();
                        }
                        let b = (x >> (8 * (i % 8))) as u8;
                        k.push(if kt == KtId::Str { b'a' + b % 26 } else { b });
                    }
                    k
                }
            }
            KtId::U64 | KtId::I64 => rng.next().to_le_bytes().to_vec(),
            KtId::Vu64 => {
                // spread over the encoding lengths
                let x = rng.next() >> (rng.next() % 64);
                vu_encode(x)
            }
        };
        if place_hash(&k) % n != bucket % n {
            if len == 0 && matches!(kt, KtId::Bytes | KtId::Str) {
                // the empty key lands where it lands
                return vec![k];
            }
            continue;
        }
        if out.contains(&k) || exclude.contains(&k) {
            continue;
        }
        out.push(k);
    }
    out
}

/// keys that were never stored (for absent-key probes), legal for the type
pub fn absent_keys(kt: KtId, seed: u64, exclude: &[Vec<u8>]) -> Vec<Vec<u8>> {
    let mut out = Vec::new();
    let mut rng = SplitMix(seed ^ 0x5EED_AB5E);
    while out.len() < 2 {
        let k = match kt {
            KtId::Bytes => vec![0xEE, 0x00, (rng.next() & 0xff) as u8, 0xFF, out.len() as u8],
            KtId::Str => format!("absent-{}-{}", rng.next() % 1000, out.len()).into_bytes(),
            KtId::U64 | KtId::I64 => rng.next().to_le_bytes().to_vec(),
            KtId::Vu64 => vu_encode(rng.next() >> 7),
        };
        if !exclude.contains(&k) && !out.contains(&k) {
            out.push(k);
        }
    }
    out
}

pub fn bucket_of(key: &[u8], n: u64) -> u64 {
    place_hash(key) % n
}

/// the parameter sets used when a state is re-opened "with different parameters"
pub fn reopen_params(primary: Params) -> Vec<Params> {
    vec![
        primary,
        Params { ht: HtP::Buckets(1024), ..Params::defaults() },
        Params { ht: HtP::Capacity(3), val: BufP::PerMille(1000), key: BufP::Auto, htx: BufP::Auto },
        Params { ht: HtP::Buckets(8), val: BufP::Size(262144), key: BufP::Size(262144), htx: BufP::Size(262144) },
    ]
}
