//! Engine B: bounded-exhaustive call sequences on live handles (no re-open unless it is a letter).
//!
//! A job names a prefix; the worker enumerates every completion of the prefix up to the depth,
//! runs each sequence from a fresh directory inside one process with all handles alive, checks
//! every call against the per-map BTreeMap model, and checks the files at the end.
#![allow(dead_code)]

use crate::decoder;
use crate::pool::{JobResult, Pool, WorkerIo};
use crate::props_a::Ctx;
use crate::report::{Replay, Violation};
use crate::subject::*;
use crate::util::{show, Buf, Rd, J};
use abyssiniandb::filedb::{FileDb, FileDbMap};
use abyssiniandb::{DbMap, DbXxx, DbXxxBase};
use std::collections::BTreeMap;
use std::io;
use std::path::{Path, PathBuf};

pub const JOB_B_CONFIG: u8 = 20;
pub const JOB_B_RUN: u8 = 21;

// ---------------------------------------------------------------------------------------------
// type-erased map handle

pub trait DynMap {
    fn put(&mut self, k: &[u8], v: &[u8]) -> io::Result<()>;
    fn get(&mut self, k: &[u8]) -> io::Result<Option<Vec<u8>>>;
    fn del(&mut self, k: &[u8]) -> io::Result<Option<Vec<u8>>>;
    fn has(&mut self, k: &[u8]) -> io::Result<bool>;
    fn len(&self) -> io::Result<u64>;
    fn is_empty(&self) -> io::Result<bool>;
    fn flush(&mut self) -> io::Result<()>;
    fn sync_all(&mut self) -> io::Result<()>;
    fn sync_data(&mut self) -> io::Result<()>;
    fn read_fill_buffer(&mut self) -> io::Result<()>;
    fn bulk_put(&mut self, pairs: &[(&[u8], &[u8])]) -> io::Result<()>;
    /// the iterator oracle of C04 (some flavours) against the model; a complaint or None
    fn iter_check(&mut self, model: &BTreeMap<Vec<u8>, Vec<u8>>) -> Option<String>;
    fn clone_box(&self) -> Box<dyn DynMap>;
    fn items(&mut self) -> Vec<(Vec<u8>, Vec<u8>)>;
    /// put_from_iter fed by the iterator of another handle of the same map: every entry is stored again
    /// with the value it has (the contents do not change)
    fn put_from_alias_iter(&mut self) -> io::Result<()>;
    /// every statistics call once (results ignored)
    fn stats_all(&mut self);
    /// the statistics calls compared with an independently decoded image of the files
    fn stats_complaint(&mut self, d: &decoder::Decoded) -> Option<String>;
    /// the other lookups: includes_key, bulk_get, get_string, bulk_get_string
    fn lookups_all(&mut self, keys: &[Vec<u8>]);
    fn partial_iter(&mut self, steps: usize) -> Box<dyn std::any::Any>;
}

impl<T: Kt> DynMap for FileDbMap<T> {
    fn put(&mut self, k: &[u8], v: &[u8]) -> io::Result<()> {
        DbXxx::put(self, k, v)
    }
    fn get(&mut self, k: &[u8]) -> io::Result<Option<Vec<u8>>> {
        DbXxx::get(self, k)
    }
    fn del(&mut self, k: &[u8]) -> io::Result<Option<Vec<u8>>> {
        DbXxx::delete(self, k)
    }
    fn has(&mut self, k: &[u8]) -> io::Result<bool> {
        DbXxx::includes_key(self, k)
    }
    fn len(&self) -> io::Result<u64> {
        DbXxxBase::len(self)
    }
    fn is_empty(&self) -> io::Result<bool> {
        DbXxxBase::is_empty(self)
    }
    fn flush(&mut self) -> io::Result<()> {
        DbXxxBase::flush(self)
    }
    fn sync_all(&mut self) -> io::Result<()> {
        DbXxxBase::sync_all(self)
    }
    fn sync_data(&mut self) -> io::Result<()> {
        DbXxxBase::sync_data(self)
    }
    fn read_fill_buffer(&mut self) -> io::Result<()> {
        DbXxxBase::read_fill_buffer(self)
    }
    fn bulk_put(&mut self, pairs: &[(&[u8], &[u8])]) -> io::Result<()> {
        DbXxx::bulk_put(self, pairs)
    }
    fn stats_complaint(&mut self, d: &decoder::Decoded) -> Option<String> {
        crate::engine_a::stats_vs_decoded(self, d)
    }
    fn put_from_alias_iter(&mut self) -> io::Result<()> {
        let alias = self.clone();
        DbXxx::put_from_iter(self, alias.iter())
    }
    fn stats_all(&mut self) {
        use abyssiniandb::filedb::CheckFileDbMap;
        let _ = guard(|| self.count_of_free_key_piece().map(|_| ()));
        let _ = guard(|| self.count_of_free_value_piece().map(|_| ()));
        let _ = guard(|| self.key_piece_size_stats().map(|_| ()));
        let _ = guard(|| self.value_piece_size_stats().map(|_| ()));
        let _ = guard(|| self.key_length_stats().map(|_| ()));
        let _ = guard(|| self.value_length_stats().map(|_| ()));
        let _ = guard(|| self.htx_filling_rate_per_mill().map(|_| ()));
    }
    fn lookups_all(&mut self, keys: &[Vec<u8>]) {
        let ks: Vec<&[u8]> = keys.iter().map(|k| &k[..]).collect();
        for k in &ks {
            let _ = guard(|| DbXxx::includes_key(self, *k));
            let _ = guard(|| DbXxx::get_string(self, *k));
        }
        let _ = guard(|| DbXxx::bulk_get(self, &ks));
        let _ = guard(|| DbXxx::bulk_get_string(self, &ks));
    }
    fn iter_check(&mut self, model: &BTreeMap<Vec<u8>, Vec<u8>>) -> Option<String> {
        for f in [0usize, 2, 3, 4, 7] {
            match crate::engine_a::run_flavour(self, f, model.len()) {
                Out::Ok(Ok(items)) => {
                    if let Some(bad) = crate::engine_a::check_flavour(f, &items, model) {
                        return Some(format!("{} {}", crate::engine_a::ITER_FLAVOURS[f], bad));
                    }
                }
                Out::Ok(Err(bad)) => return Some(format!("{}: {}", crate::engine_a::ITER_FLAVOURS[f], bad)),
                o => return Some(format!("{} {}", crate::engine_a::ITER_FLAVOURS[f], o.failed().unwrap_or_default())),
            }
        }
        None
    }
    fn clone_box(&self) -> Box<dyn DynMap> {
        Box::new(self.clone())
    }
    fn items(&mut self) -> Vec<(Vec<u8>, Vec<u8>)> {
        self.iter().map(|(k, v)| (k.as_bytes().to_vec(), v)).collect()
    }
    fn partial_iter(&mut self, steps: usize) -> Box<dyn std::any::Any> {
        let mut it = self.iter();
        for _ in 0..steps {
            let _ = it.next();
        }
        Box::new(it)
    }
}

pub fn acquire(db: &FileDb, kt: KtId, name: &str, params: Option<&Params>) -> io::Result<Box<dyn DynMap>> {
    crate::with_kt!(kt, T => {
        let m: FileDbMap<T> = match params {
            Some(p) => T::open(db, name, p.real())?,
            None => T::open_default(db, name)?,
        };
        Ok(Box::new(m) as Box<dyn DynMap>)
    })
}

// ---------------------------------------------------------------------------------------------
// configuration and letters

#[derive(Clone, Debug)]
pub struct BMap {
    pub name: String,
    pub kt: KtId,
    pub params: Params,
    pub keys: Vec<Vec<u8>>,
}

#[derive(Clone, Copy, Debug, PartialEq, Eq)]
pub struct Letter {
    pub kind: u8,
    pub map: u8,
    pub handle: u8,
    pub key: u8,
    pub val: u8,
}

pub const L_PUT: u8 = 0;
pub const L_DEL: u8 = 1;
pub const L_GET: u8 = 2;
pub const L_HAS: u8 = 3;
pub const L_LEN: u8 = 4;
pub const L_FLUSH: u8 = 5;
pub const L_SYNC_ALL: u8 = 6;
pub const L_SYNC_DATA: u8 = 7;
pub const L_DB_SYNC_ALL: u8 = 8;
pub const L_DB_SYNC_DATA: u8 = 9;
pub const L_REOPEN: u8 = 10;
pub const L_DROP_MAPS: u8 = 11;
pub const L_DROP_DB: u8 = 12;
pub const L_KEEP_ITER: u8 = 13;
pub const L_ISEMPTY: u8 = 14;
pub const L_FILL: u8 = 15;
/// bulk_put of every key of the map (value index = letter.val rotated by the key index)
pub const L_BULK_PUT: u8 = 17;
/// a full traversal (several iterator flavours) compared with the model
pub const L_ITER_CHECK: u8 = 18;
/// put_from_iter(alias.iter()): re-stores every entry through an aliasing handle's iterator
pub const L_PFI_ALIAS: u8 = 19;

pub const H_FIRST: u8 = 0;
pub const H_CLONE: u8 = 1;
pub const H_LOOKUP: u8 = 2;
pub const H_DBCLONE: u8 = 3;
pub const H_PARAMS: u8 = 4;
pub const HANDLE_NAMES: [&str; 5] = ["first handle", "clone of the handle", "repeated lookup", "lookup through db.clone()", "lookup *_with_params(other)"];

pub const F_OBSERVE_ALL: u32 = 1; // after every call every handle of every map answers per its model
pub const F_DECODE_END: u32 = 2; // at the end: drop, decode every map's files, contents = model
pub const F_RETURN_IMAGES: u32 = 4; // return the final images (C18, C11 projection)
pub const F_REOPEN_END: u32 = 8; // at the end: re-open with every parameter set of `reopen`, compare
pub const F_SNAPSHOT_AT_SYNC: u32 = 16; // C03: at every Ok durability call copy the directory and open the copy
pub const F_SYNC_LOG: u32 = 32; // C03: at sync_* the shim log must show fsync/fdatasync after the last write of each file
pub const F_SPLICE_RO: u32 = 64; // C18: read-only calls after every update
pub const F_ALLOW_ERR_NOT_WRONG: u32 = 128;
pub const F_STATS_AT_SYNC: u32 = 256; // C17: at every Ok durability call the live handle's statistics = the decoded copy of the directory

#[derive(Clone, Debug)]
pub struct BCfg {
    pub prop: String,
    pub maps: Vec<BMap>,
    pub val_lens: Vec<u32>,
    pub letters: Vec<Letter>,
    pub depth: u8,
    pub flags: u32,
    pub seed: u64,
    pub reopen: Vec<Params>,
    pub other_params: Params,
}

impl BCfg {
    pub fn enc(&self) -> Vec<u8> {
        let mut b = Buf::new();
        b.str(&self.prop).u32(self.maps.len() as u32);
        for m in &self.maps {
            b.str(&m.name).u8(m.kt as u8);
            m.params.enc(&mut b);
            b.u32(m.keys.len() as u32);
            for k in &m.keys {
                b.bytes(k);
            }
        }
        b.u32(self.val_lens.len() as u32);
        for v in &self.val_lens {
            b.u32(*v);
        }
        b.u32(self.letters.len() as u32);
        for l in &self.letters {
            b.u8(l.kind).u8(l.map).u8(l.handle).u8(l.key).u8(l.val);
        }
        b.u8(self.depth).u32(self.flags).u64(self.seed).u32(self.reopen.len() as u32);
        for p in &self.reopen {
            p.enc(&mut b);
        }
        self.other_params.enc(&mut b);
        b.0
    }
    pub fn dec(bytes: &[u8]) -> BCfg {
        let mut r = Rd::new(bytes);
        let prop = r.string();
        let nm = r.u32();
        let mut maps = Vec::new();
        for _ in 0..nm {
            let name = r.string();
            let kt = KtId::from_u8(r.u8());
            let params = Params::dec(&mut r);
            let nk = r.u32();
            let keys = (0..nk).map(|_| r.vec()).collect();
            maps.push(BMap { name, kt, params, keys });
        }
        let nv = r.u32();
        let val_lens = (0..nv).map(|_| r.u32()).collect();
        let nl = r.u32();
        let letters = (0..nl).map(|_| Letter { kind: r.u8(), map: r.u8(), handle: r.u8(), key: r.u8(), val: r.u8() }).collect();
        let depth = r.u8();
        let flags = r.u32();
        let seed = r.u64();
        let nr = r.u32();
        let reopen = (0..nr).map(|_| Params::dec(&mut r)).collect();
        let other_params = Params::dec(&mut r);
        BCfg { prop, maps, val_lens, letters, depth, flags, seed, reopen, other_params }
    }
    pub fn value(&self, map: u8, key: u8, val: u8) -> Vec<u8> {
        crate::engine_a::value_bytes(self.seed ^ ((map as u64) << 20), key as u64, val as u64, self.val_lens[val as usize] as usize)
    }
    pub fn label(&self, l: &Letter) -> String {
        let m = &self.maps[l.map as usize % self.maps.len()];
        let via = |h: u8| format!("[map {} via {}]", m.name, HANDLE_NAMES[h as usize % 5]);
        let k = || m.keys.get(l.key as usize).map(|k| show(k)).unwrap_or_default();
        match l.kind {
            L_PUT => format!("put({}, {} bytes) {}", k(), self.val_lens[l.val as usize], via(l.handle)),
            L_DEL => format!("delete({}) {}", k(), via(l.handle)),
            L_GET => format!("get({}) {}", k(), via(l.handle)),
            L_HAS => format!("includes_key({}) {}", k(), via(l.handle)),
            L_LEN => format!("len() {}", via(l.handle)),
            L_ISEMPTY => format!("is_empty() {}", via(l.handle)),
            L_FLUSH => format!("flush() {}", via(l.handle)),
            L_SYNC_ALL => format!("sync_all() {}", via(l.handle)),
            L_SYNC_DATA => format!("sync_data() {}", via(l.handle)),
            L_DB_SYNC_ALL => "db.sync_all()".into(),
            L_DB_SYNC_DATA => "db.sync_data()".into(),
            L_REOPEN => format!("drop every handle, re-open (parameter set #{})", l.key),
            L_DROP_MAPS => format!("drop the handles of map {} (database handle stays)", m.name),
            L_DROP_DB => "drop the database handle (map handles stay)".into(),
            L_KEEP_ITER => format!("start an iterator on map {}, take one item, keep it alive", m.name),
            L_FILL => format!("read_fill_buffer() {}", via(l.handle)),
            L_PFI_ALIAS => format!("put_from_iter fed by the iterator of a clone of the handle {}", via(l.handle)),
            L_ITER_CHECK => format!("traverse (iter, keys, values, into_iter, iter with len() between the steps) and compare {}", via(l.handle)),
            L_BULK_PUT => format!("bulk_put of all {} keys (value sizes rotated from #{}) {}", m.keys.len(), l.val, via(l.handle)),
            40 => "flush() [map m] with its first write refused by the operating system (ENOSPC), then the condition is lifted".to_string(),
            _ => format!("letter {:?}", l),
        }
    }
    pub fn is_durability(l: &Letter) -> bool {
        matches!(l.kind, L_FLUSH | L_SYNC_ALL | L_SYNC_DATA | L_DB_SYNC_ALL | L_DB_SYNC_DATA)
    }
    pub fn is_update(l: &Letter) -> bool {
        matches!(l.kind, L_PUT | L_DEL | L_BULK_PUT)
    }
}

// ---------------------------------------------------------------------------------------------
// execution state of one sequence

pub struct MapHandles {
    pub h: Vec<Option<Box<dyn DynMap>>>, // by handle kind
}

pub struct BState {
    pub dir: PathBuf,
    pub db: Option<FileDb>,
    pub db_clone: Option<FileDb>,
    pub maps: Vec<MapHandles>,
    pub models: Vec<BTreeMap<Vec<u8>, Vec<u8>>>,
    pub kept: Vec<Box<dyn std::any::Any>>,
    pub opened_once: Vec<bool>,
    pub param_override: Option<usize>,
    pub updates_since_reopen: u64,
}

pub type Hook<'a> = &'a mut dyn FnMut(&BCfg, &mut BState, usize, &Letter, bool) -> Option<String>;

impl BState {
    pub fn new(cfg: &BCfg, dir: &Path) -> BState {
        BState {
            dir: dir.to_path_buf(),
            db: None,
            db_clone: None,
            maps: (0..cfg.maps.len()).map(|_| MapHandles { h: (0..5).map(|_| None).collect() }).collect(),
            models: vec![BTreeMap::new(); cfg.maps.len()],
            kept: Vec::new(),
            opened_once: vec![false; cfg.maps.len()],
            param_override: None,
            updates_since_reopen: 0,
        }
    }
    pub fn drop_all(&mut self) -> Option<String> {
        let kept = std::mem::take(&mut self.kept);
        let maps: Vec<MapHandles> = self.maps.iter_mut().map(|m| MapHandles { h: std::mem::replace(&mut m.h, (0..5).map(|_| None).collect()) }).collect();
        let db = self.db.take();
        let dbc = self.db_clone.take();
        match guard_plain(move || {
            drop(kept);
            drop(maps);
            drop(dbc);
            drop(db);
        }) {
            Out::Panic(p) => Some(format!("dropping the handles panicked: {p}")),
            _ => None,
        }
    }
    fn ensure_db(&mut self) -> Result<(), String> {
        if self.db.is_none() {
            let dir = self.dir.clone();
            match guard(move || abyssiniandb::open_file(&dir)) {
                Out::Ok(db) => self.db = Some(db),
                o => return Err(format!("open_file {}", o.failed().unwrap_or_default())),
            }
        }
        Ok(())
    }
    /// the handle of kind `h` on map `mi`, acquired on first use and kept alive
    pub fn handle(&mut self, cfg: &BCfg, mi: usize, h: u8) -> Result<&mut Box<dyn DynMap>, String> {
        let h = (h % 5) as usize;
        if self.maps[mi].h[h].is_some() {
            return Ok(self.maps[mi].h[h].as_mut().unwrap());
        }
        // a database handle is needed for every acquisition except a clone of an existing handle.
        // if the database handle was dropped while something of it is still alive (a map handle, an
        // iterator), opening the directory again would create a second, independent instance over
        // the same files; that is outside every property, so such a letter is skipped.
        if self.db.is_none() {
            let alive = !self.kept.is_empty() || self.maps.iter().any(|m| m.h.iter().any(|x| x.is_some()));
            if alive {
                if self.maps[mi].h[0].is_some() {
                    let first = self.maps[mi].h[0].as_ref().unwrap();
                    match guard_plain(|| first.clone_box()) {
                        Out::Ok(x) => {
                            self.maps[mi].h[h] = Some(x);
                            return Ok(self.maps[mi].h[h].as_mut().unwrap());
                        }
                        o => return Err(format!("clone {}", o.failed().unwrap_or_default())),
                    }
                }
                return Err("SKIP".into());
            }
            self.ensure_db()?;
        }
        let m = &cfg.maps[mi];
        let primary = match self.param_override {
            Some(pi) => cfg.reopen[pi % cfg.reopen.len().max(1)],
            None => m.params,
        };
        // the first handle always exists before any other kind (it creates the map with its parameters)
        if self.maps[mi].h[0].is_none() {
            let db = self.db.as_ref().unwrap().clone();
            let name = m.name.clone();
            let kt = m.kt;
            match guard(move || acquire(&db, kt, &name, Some(&primary))) {
                Out::Ok(x) => self.maps[mi].h[0] = Some(x),
                o => return Err(format!("opening map {} {}", m.name, o.failed().unwrap_or_default())),
            }
            self.opened_once[mi] = true;
        }
        if h != 0 {
            let name = m.name.clone();
            let kt = m.kt;
            let other = cfg.other_params;
            let got: Out<Box<dyn DynMap>> = match h as u8 {
                H_CLONE => {
                    let first = self.maps[mi].h[0].as_ref().unwrap();
                    guard_plain(|| first.clone_box())
                }
                H_LOOKUP => {
                    self.ensure_db()?;
                    let db = self.db.as_ref().unwrap().clone();
                    guard(move || acquire(&db, kt, &name, None))
                }
                H_DBCLONE => {
                    self.ensure_db()?;
                    if self.db_clone.is_none() {
                        self.db_clone = Some(self.db.as_ref().unwrap().clone());
                    }
                    let db = self.db_clone.as_ref().unwrap().clone();
                    guard(move || acquire(&db, kt, &name, None))
                }
                _ => {
                    self.ensure_db()?;
                    let db = self.db.as_ref().unwrap().clone();
                    guard(move || acquire(&db, kt, &name, Some(&other)))
                }
            };
            match got {
                Out::Ok(x) => self.maps[mi].h[h] = Some(x),
                o => return Err(format!("acquiring {} of map {} {}", HANDLE_NAMES[h], m.name, o.failed().unwrap_or_default())),
            }
        }
        Ok(self.maps[mi].h[h].as_mut().unwrap())
    }

    /// execute one letter; returns a complaint if the call disagrees with the model
    pub fn exec(&mut self, cfg: &BCfg, l: &Letter) -> Option<String> {
        let mi = l.map as usize % cfg.maps.len();
        match l.kind {
            L_REOPEN => {
                if let Some(e) = self.drop_all() {
                    return Some(e);
                }
                self.param_override = Some(l.key as usize);
                self.updates_since_reopen = 0;
                // re-open every map that exists so far, compare everything
                for i in 0..cfg.maps.len() {
                    if self.opened_once[i] {
                        if let Err(e) = self.handle(cfg, i, 0) {
                            return Some(format!("after close, re-open with parameter set #{}: {e}", l.key));
                        }
                        if let Some(e) = self.observe_map(cfg, i, 0, true) {
                            return Some(format!("after close and re-open with parameter set #{}: {e}", l.key));
                        }
                    }
                }
                return None;
            }
            L_DROP_MAPS => {
                let hs = std::mem::replace(&mut self.maps[mi].h, (0..5).map(|_| None).collect());
                let _ = guard_plain(move || drop(hs));
                return None;
            }
            L_DROP_DB => {
                let db = self.db.take();
                let dbc = self.db_clone.take();
                let _ = guard_plain(move || {
                    drop(dbc);
                    drop(db);
                });
                return None;
            }
            L_DB_SYNC_ALL | L_DB_SYNC_DATA => {
                if self.db.is_none() && (!self.kept.is_empty() || self.maps.iter().any(|m| m.h.iter().any(|x| x.is_some()))) {
                    return None;
                }
                if let Err(e) = self.ensure_db() {
                    return Some(e);
                }
                let db = self.db.as_ref().unwrap();
                let r = if l.kind == L_DB_SYNC_ALL { guard(|| db.sync_all()) } else { guard(|| db.sync_data()) };
                return r.failed().map(|f| format!("{} {f}", cfg.label(l)));
            }
            _ => {}
        }
        let key: Vec<u8> = cfg.maps[mi].keys.get(l.key as usize).cloned().unwrap_or_default();
        let val = if l.kind == L_PUT { cfg.value(l.map, l.key, l.val) } else { Vec::new() };
        let expect = self.models[mi].get(&key).cloned();
        let n = self.models[mi].len() as u64;
        let model_now = if l.kind == L_ITER_CHECK { self.models[mi].clone() } else { BTreeMap::new() };
        let h = match self.handle(cfg, mi, l.handle) {
            Ok(h) => h,
            Err(e) if e == "SKIP" => return None,
            Err(e) => return Some(e),
        };
        let bad = |what: String| Some(what);
        match l.kind {
            L_PUT => {
                let r = guard(|| h.put(&key, &val));
                if r != Out::Ok(()) {
                    return bad(format!("{} {}", cfg.label(l), r.failed().unwrap_or_default()));
                }
                self.models[mi].insert(key, val);
                self.updates_since_reopen += 1;
            }
            L_BULK_PUT => {
                let keys = cfg.maps[mi].keys.clone();
                let nv = cfg.val_lens.len() as u8;
                let vals: Vec<Vec<u8>> = (0..keys.len()).map(|i| cfg.value(l.map, i as u8, (l.val + i as u8) % nv)).collect();
                let pairs: Vec<(&[u8], &[u8])> = keys.iter().zip(vals.iter()).map(|(k, v)| (&k[..], &v[..])).collect();
                let r = guard(|| h.bulk_put(&pairs));
                if r != Out::Ok(()) {
                    return bad(format!("{} {}", cfg.label(l), r.failed().unwrap_or_default()));
                }
                for (k, v) in keys.into_iter().zip(vals.into_iter()) {
                    self.models[mi].insert(k, v);
                }
                self.updates_since_reopen += 1;
            }
            L_DEL => {
                let r = guard(|| h.del(&key));
                if r != Out::Ok(expect.clone()) {
                    return bad(format!("{} gives {} but the model says {}", cfg.label(l), fmt_out(&r), fmt_opt(&expect)));
                }
                self.models[mi].remove(&key);
                self.updates_since_reopen += 1;
            }
            L_GET => {
                let r = guard(|| h.get(&key));
                if r != Out::Ok(expect.clone()) {
                    return bad(format!("{} gives {} but the model says {}", cfg.label(l), fmt_out(&r), fmt_opt(&expect)));
                }
            }
            L_HAS => {
                let r = guard(|| h.has(&key));
                if r != Out::Ok(expect.is_some()) {
                    return bad(format!("{} gives {:?} but the model says {}", cfg.label(l), r, expect.is_some()));
                }
            }
            L_LEN => {
                let r = guard(|| h.len());
                if r != Out::Ok(n) {
                    return bad(format!("{} gives {:?} but the model holds {n} entries", cfg.label(l), r));
                }
            }
            L_ISEMPTY => {
                let r = guard(|| h.is_empty());
                if r != Out::Ok(n == 0) {
                    return bad(format!("{} gives {:?} but the model holds {n} entries", cfg.label(l), r));
                }
            }
            L_FLUSH | L_SYNC_ALL | L_SYNC_DATA | L_FILL => {
                let r = match l.kind {
                    L_FLUSH => guard(|| h.flush()),
                    L_SYNC_ALL => guard(|| h.sync_all()),
                    L_SYNC_DATA => guard(|| h.sync_data()),
                    _ => guard(|| h.read_fill_buffer()),
                };
                if let Some(f) = r.failed() {
                    return bad(format!("{} {f}", cfg.label(l)));
                }
            }
            L_PFI_ALIAS => {
                let r = guard(|| h.put_from_alias_iter());
                if r != Out::Ok(()) {
                    return bad(format!("{} {}", cfg.label(l), r.failed().unwrap_or_default()));
                }
            }
            L_ITER_CHECK => {
                if let Some(why) = h.iter_check(&model_now) {
                    return bad(format!("{}: {why}", cfg.label(l)));
                }
            }
            L_KEEP_ITER => {
                match guard_plain(|| h.partial_iter(1)) {
                    Out::Ok(it) => self.kept.push(it),
                    o => return bad(format!("{} {}", cfg.label(l), o.failed().unwrap_or_default())),
                }
            }
            _ => {}
        }
        None
    }

    /// every key of map `mi` through handle kind `h` (and len, optionally the iteration multiset)
    pub fn observe_map(&mut self, cfg: &BCfg, mi: usize, h: u8, with_iter: bool) -> Option<String> {
        let model = self.models[mi].clone();
        let keys = cfg.maps[mi].keys.clone();
        let name = cfg.maps[mi].name.clone();
        let hd = match self.handle(cfg, mi, h) {
            Ok(x) => x,
            Err(e) if e == "SKIP" => return None,
            Err(e) => return Some(e),
        };
        for k in &keys {
            let exp = model.get(k).cloned();
            let r = guard(|| hd.get(k));
            if r != Out::Ok(exp.clone()) {
                return Some(format!("map {name} via {}: get({}) gives {} but the model says {}", HANDLE_NAMES[h as usize % 5], show(k), fmt_out(&r), fmt_opt(&exp)));
            }
        }
        let r = guard(|| hd.len());
        if r != Out::Ok(model.len() as u64) {
            return Some(format!("map {name} via {}: len() gives {:?} but the model holds {}", HANDLE_NAMES[h as usize % 5], r, model.len()));
        }
        if with_iter {
            match guard_plain(|| hd.items()) {
                Out::Ok(mut items) => {
                    items.sort();
                    let exp: Vec<(Vec<u8>, Vec<u8>)> = model.into_iter().collect();
                    if items != exp {
                        return Some(format!("map {name}: iteration yields {} items that differ from the model's {} entries", items.len(), exp.len()));
                    }
                }
                o => return Some(format!("map {name}: iteration {}", o.failed().unwrap_or_default())),
            }
        }
        None
    }

    pub fn observe_all(&mut self, cfg: &BCfg) -> Option<String> {
        for mi in 0..cfg.maps.len() {
            for h in 0..5u8 {
                if self.maps[mi].h[h as usize].is_some() {
                    if let Some(e) = self.observe_map(cfg, mi, h, false) {
                        return Some(e);
                    }
                }
            }
        }
        None
    }
}

pub fn fmt_opt(v: &Option<Vec<u8>>) -> String {
    v.as_ref().map(|x| show(x)).unwrap_or("None".into())
}
pub fn fmt_out(r: &Out<Option<Vec<u8>>>) -> String {
    match r {
        Out::Ok(v) => fmt_opt(v),
        o => o.failed().unwrap_or_default(),
    }
}

/// decode every map's files in `dir` and compare with the models
pub fn check_files(cfg: &BCfg, dir: &Path, models: &[BTreeMap<Vec<u8>, Vec<u8>>], opened: &[bool]) -> Option<String> {
    for (mi, m) in cfg.maps.iter().enumerate() {
        if !opened[mi] {
            continue;
        }
        let img = match Image::read(dir, &m.name) {
            Ok(i) => i,
            Err(e) => return Some(format!("files of map {} unreadable: {e}", m.name)),
        };
        let d = decoder::decode(&img.htx, &img.key, &img.val);
        if let Some((c, msg)) = d.errors.first() {
            return Some(format!("files of map {} do not decode (clause {}): {msg}", m.name, c.name()));
        }
        if d.contents != models[mi] {
            return Some(format!("files of map {} decode to {} entries that differ from the model's {}", m.name, d.contents.len(), models[mi].len()));
        }
        if d.sig2[0] != m.kt.signature() {
            return Some(format!("files of map {} carry type signature {:?}", m.name, d.sig2[0]));
        }
    }
    None
}

/// open a copy of the directory with fresh handles and compare every map with its model
pub fn check_reopen(cfg: &BCfg, dir: &Path, models: &[BTreeMap<Vec<u8>, Vec<u8>>], opened: &[bool], p: Option<&Params>) -> Option<String> {
    let dirb = dir.to_path_buf();
    let db = match guard(move || abyssiniandb::open_file(&dirb)) {
        Out::Ok(db) => db,
        o => return Some(format!("open_file {}", o.failed().unwrap_or_default())),
    };
    for (mi, m) in cfg.maps.iter().enumerate() {
        if !opened[mi] {
            continue;
        }
        let pp = p.copied().unwrap_or(m.params);
        let dbc = db.clone();
        let name = m.name.clone();
        let kt = m.kt;
        let mut h = match guard(move || acquire(&dbc, kt, &name, Some(&pp))) {
            Out::Ok(h) => h,
            o => return Some(format!("opening map {} {}", m.name, o.failed().unwrap_or_default())),
        };
        for k in &m.keys {
            let exp = models[mi].get(k).cloned();
            let r = guard(|| h.get(k));
            if r != Out::Ok(exp.clone()) {
                return Some(format!("map {}: get({}) gives {} but the model says {}", m.name, show(k), fmt_out(&r), fmt_opt(&exp)));
            }
        }
        let r = guard(|| h.len());
        if r != Out::Ok(models[mi].len() as u64) {
            return Some(format!("map {}: len() gives {:?} but the model holds {}", m.name, r, models[mi].len()));
        }
        match guard_plain(|| h.items()) {
            Out::Ok(mut items) => {
                items.sort();
                let exp: Vec<(Vec<u8>, Vec<u8>)> = models[mi].clone().into_iter().collect();
                if items != exp {
                    return Some(format!("map {}: iteration differs from the model", m.name));
                }
            }
            o => return Some(format!("map {}: iteration {}", m.name, o.failed().unwrap_or_default())),
        }
        let _ = guard_plain(move || drop(h));
    }
    let _ = guard_plain(move || drop(db));
    None
}

pub fn copy_dir(from: &Path, to: &Path) -> io::Result<()> {
    clear_dir(to);
    for e in std::fs::read_dir(from)? {
        let e = e?;
        if e.path().is_file() {
            std::fs::copy(e.path(), to.join(e.file_name()))?;
        }
    }
    Ok(())
}

// ---------------------------------------------------------------------------------------------
// worker: run all completions of a prefix

pub struct BWorker {
    pub cfg: BCfg,
    pub scratch: Scratch,
}

#[derive(Default)]
pub struct BOutcome {
    pub sequences: u64,
    pub calls: u64,
    pub failure: Option<(Vec<u8>, usize, String, String)>, // sequence (letter indices), position, key, message
    pub counters: BTreeMap<String, i64>,
    pub images: Vec<Vec<u8>>, // packed images per map of the last sequence (F_RETURN_IMAGES)
}

impl BOutcome {
    pub fn enc(&self) -> Vec<u8> {
        let mut b = Buf::new();
        b.u64(self.sequences).u64(self.calls);
        match &self.failure {
            Some((s, pos, k, m)) => {
                b.u8(1).bytes(s).u32(*pos as u32).str(k).str(m);
            }
            None => {
                b.u8(0);
            }
        }
        b.u32(self.counters.len() as u32);
        for (k, v) in &self.counters {
            b.str(k).u64(*v as u64);
        }
        b.u32(self.images.len() as u32);
        for i in &self.images {
            b.bytes(i);
        }
        b.0
    }
    pub fn dec(bytes: &[u8]) -> BOutcome {
        let mut r = Rd::new(bytes);
        let mut o = BOutcome { sequences: r.u64(), calls: r.u64(), ..Default::default() };
        if r.u8() == 1 {
            let s = r.vec();
            let pos = r.u32() as usize;
            let k = r.string();
            let m = r.string();
            o.failure = Some((s, pos, k, m));
        }
        let nc = r.u32();
        for _ in 0..nc {
            let k = r.string();
            let v = r.u64() as i64;
            o.counters.insert(k, v);
        }
        let ni = r.u32();
        for _ in 0..ni {
            o.images.push(r.vec());
        }
        o
    }
}

fn key_of(msg: &str) -> String {
    // stable key from a message: the call name and the kind of failure
    let kind = if msg.contains("panicked") {
        "panic"
    } else if msg.contains("returned Err") {
        "err"
    } else {
        "wrong"
    };
    let call = msg.split(|c: char| c == '(' || c == ' ').next().unwrap_or("");
    format!("{call}:{kind}")
}

impl BWorker {
    pub fn new(cfg: BCfg) -> BWorker {
        BWorker { cfg, scratch: Scratch::new("b") }
    }

    /// run one complete sequence; `hook` is called after every letter (ok flag) for property specific checks
    pub fn run_sequence(&mut self, seq: &[u8], out: &mut BOutcome, hook: Option<Hook>) -> Option<(usize, String)> {
        let cfg = self.cfg.clone();
        let dir = self.scratch.fresh("d");
        let mut st = BState::new(&cfg, &dir);
        let mut hook = hook;
        let mut fail: Option<(usize, String)> = None;
        for (pos, li) in seq.iter().enumerate() {
            let l = cfg.letters[*li as usize];
            out.calls += 1;
            let r = st.exec(&cfg, &l);
            if let Some(h) = hook.as_mut() {
                if let Some(e) = h(&cfg, &mut st, pos, &l, r.is_none()) {
                    fail = Some((pos, e));
                    break;
                }
            }
            if let Some(e) = r {
                fail = Some((pos, e));
                break;
            }
            if cfg.flags & F_SPLICE_RO != 0 && BCfg::is_update(&l) {
                let mi = l.map as usize % cfg.maps.len();
                let _ = st.observe_map(&cfg, mi, l.handle, true);
            }
            if cfg.flags & F_OBSERVE_ALL != 0 {
                if let Some(e) = st.observe_all(&cfg) {
                    fail = Some((pos, format!("after {}: {e}", cfg.label(&l))));
                    break;
                }
            }
        }
        let opened = st.opened_once.clone();
        let models = st.models.clone();
        if let Some(e) = st.drop_all() {
            if fail.is_none() {
                fail = Some((seq.len(), e));
            }
        }
        drop(st);
        if fail.is_none() && cfg.flags & F_DECODE_END != 0 {
            if let Some(e) = check_files(&cfg, &dir, &models, &opened) {
                fail = Some((seq.len(), format!("after the sequence and dropping every handle: {e}")));
            }
        }
        if fail.is_none() && cfg.flags & F_REOPEN_END != 0 {
            for (pi, p) in cfg.reopen.iter().enumerate() {
                if let Some(e) = check_reopen(&cfg, &dir, &models, &opened, Some(p)) {
                    fail = Some((seq.len(), format!("after the sequence, re-opened with parameter set #{pi} ({}): {e}", p.label())));
                    break;
                }
            }
        }
        if cfg.flags & F_RETURN_IMAGES != 0 {
            out.images.clear();
            for (mi, m) in cfg.maps.iter().enumerate() {
                if opened[mi] {
                    out.images.push(Image::read(&dir, &m.name).map(|i| i.pack()).unwrap_or_default());
                } else {
                    out.images.push(Vec::new());
                }
            }
        }
        fail
    }

    /// job payload: prefix (letter indices), first completion index, number of completions (0 = all)
    pub fn run(&mut self, payload: &[u8], io: &mut WorkerIo) -> Vec<u8> {
        let mut r = Rd::new(payload);
        let prefix = r.vec();
        let only = r.u64(); // u64::MAX = all completions, else just this one
        let cfg = self.cfg.clone();
        let mut out = BOutcome::default();
        let free = cfg.depth as usize - prefix.len();
        let a = cfg.letters.len() as u64;
        let total = a.pow(free as u32);
        let mut seq = prefix.clone();
        seq.resize(cfg.depth as usize, 0);
        let range = if only == u64::MAX { 0..total } else { only..only + 1 };
        for idx in range {
            let mut x = idx;
            for p in (prefix.len()..cfg.depth as usize).rev() {
                seq[p] = (x % a) as u8;
                x /= a;
            }
            io.progress(idx);
            out.sequences += 1;
            let s = seq.clone();
            if let Some((pos, msg)) = self.run_sequence(&s, &mut out, None) {
                out.failure = Some((s, pos, key_of(&msg), msg));
                break;
            }
        }
        out.enc()
    }
}

pub fn make_run_job(prefix: &[u8], only: u64) -> Vec<u8> {
    let mut b = Buf::new();
    b.u8(JOB_B_RUN).bytes(prefix).u64(only);
    b.0
}

pub fn seq_story(cfg: &BCfg, seq: &[u8], pos: usize) -> Vec<String> {
    let mut v = Vec::new();
    for m in &cfg.maps {
        v.push(format!("map {} ({}): {}", m.name, m.kt.name(), m.params.label()));
    }
    for (i, li) in seq.iter().enumerate() {
        if i > pos {
            break;
        }
        v.push(format!("call {}: {}", i + 1, cfg.label(&cfg.letters[*li as usize])));
    }
    v
}

pub struct BStats {
    pub sequences: u64,
    pub calls: u64,
    pub complete: bool,
}

/// explore every sequence of length cfg.depth over cfg.letters (prefix closed: every call of every
/// shorter sequence is checked as a prefix of a longer one)
pub fn explore(cfg: &BCfg, pool: &mut Pool, run: &mut crate::report::Run, max_secs: f64) -> BStats {
    pool.reinit(vec![{
        let mut b = Buf::new();
        b.u8(JOB_B_CONFIG).bytes(&cfg.enc());
        b.0
    }]);
    let a = cfg.letters.len();
    let split = if cfg.depth >= 3 { 2 } else { 1 }.min(cfg.depth as usize);
    let mut prefixes: Vec<Vec<u8>> = vec![vec![]];
    for _ in 0..split {
        let mut next = Vec::new();
        for p in &prefixes {
            for l in 0..a {
                let mut q = p.clone();
                q.push(l as u8);
                next.push(q);
            }
        }
        prefixes = next;
    }
    let t0 = run.elapsed();
    let mut st = BStats { sequences: 0, calls: 0, complete: true };
    for chunk in prefixes.chunks(pool.size() * 4) {
        if run.elapsed() - t0 > max_secs {
            st.complete = false;
            break;
        }
        let jobs: Vec<Vec<u8>> = chunk.iter().map(|p| make_run_job(p, u64::MAX)).collect();
        let results = pool.map(&jobs, |i| i);
        for (i, res) in results.into_iter().enumerate() {
            match res {
                JobResult::Done(b) => {
                    let o = BOutcome::dec(&b);
                    st.sequences += o.sequences;
                    st.calls += o.calls;
                    for (k, v) in &o.counters {
                        run.add(k, *v);
                    }
                    if let Some((seq, pos, key, msg)) = o.failure {
                        let mut case = Buf::new();
                        case.bytes(&seq);
                        run.violation(Violation { prop: cfg.prop.clone(), key, message: msg.clone(), replay: Replay { engine: "B".into(), config: cfg.enc(), case: case.0, story: { let mut s = seq_story(cfg, &seq, pos); s.push(format!("observed: {msg}")); s } } });
                    }
                }
                JobResult::Crashed { progress, how } => {
                    let idx = progress.unwrap_or(0);
                    let kind = if how.contains("hang") { "hang" } else { "abort" };
                    let free = cfg.depth as usize - chunk[i].len();
                    let mut seq = chunk[i].clone();
                    seq.resize(cfg.depth as usize, 0);
                    let mut x = idx;
                    for p in (chunk[i].len()..cfg.depth as usize).rev() {
                        seq[p] = (x % a as u64) as u8;
                        x /= a as u64;
                    }
                    let _ = free;
                    let key = format!("{kind}:sequence");
                    if !run.violations.iter().any(|v| v.key == key) {
                        match pool.run_isolated(&make_run_job(&chunk[i], idx)) {
                            JobResult::Crashed { how: how2, .. } => {
                                let msg = format!("the sequence does not return normally: {how}; confirmed alone in a fresh process: {how2}");
                                let mut case = Buf::new();
                                case.bytes(&seq);
                                run.violation(Violation { prop: cfg.prop.clone(), key, message: msg.clone(), replay: Replay { engine: "B".into(), config: cfg.enc(), case: case.0, story: { let mut s = seq_story(cfg, &seq, seq.len()); s.push(format!("observed: {msg}")); s } } });
                            }
                            JobResult::Done(_) => crate::report::machinery_failure(&format!("a worker crash did not reproduce in isolation ({how}); no verdict")),
                        }
                    }
                    st.complete = false;
                }
            }
        }
        if !run.violations.is_empty() {
            st.complete = false;
            break;
        }
    }
    if !st.complete {
        run.exhaustive = false;
    }
    st
}

pub fn replay(config: &[u8], case: &[u8]) -> i32 {
    let cfg = BCfg::dec(config);
    let mut r = Rd::new(case);
    let seq = r.vec();
    println!("replay engine B: property {}", cfg.prop);
    for l in seq_story(&cfg, &seq, seq.len()) {
        println!("  {l}");
    }
    let mut w = BWorker::new(cfg);
    let mut out = BOutcome::default();
    match w.run_sequence(&seq, &mut out, None) {
        Some((pos, msg)) => {
            println!("REPLAY VIOLATION at call {}: {msg}", pos + 1);
            1
        }
        None => {
            println!("REPLAY: no violation reproduced");
            0
        }
    }
}

// ---------------------------------------------------------------------------------------------
// worker dispatch for the engine B family

thread_local! {
    static BW: std::cell::RefCell<Option<BWorker>> = std::cell::RefCell::new(None);
}

pub fn with_bworker<R>(f: impl FnOnce(&mut BWorker) -> R) -> R {
    BW.with(|w| f(w.borrow_mut().as_mut().expect("engine B not configured")))
}

pub fn worker_job(kind: u8, payload: &[u8], io: &mut WorkerIo) -> Vec<u8> {
    match kind {
        JOB_B_CONFIG => {
            let mut r = Rd::new(payload);
            let cfg = BCfg::dec(r.bytes());
            BW.with(|w| *w.borrow_mut() = Some(BWorker::new(cfg)));
            vec![0]
        }
        JOB_B_RUN => BW.with(|w| w.borrow_mut().as_mut().expect("engine B not configured").run(payload, io)),
        30..=39 => crate::engine_c::worker_job(kind, payload, io),
        _ => crate::props_d::worker_job(kind, payload, io),
    }
}

// ---------------------------------------------------------------------------------------------
// engine B parts of C01 / C02 / C18

fn note_b(ctx: &mut Ctx, label: &str, cfg: &BCfg, st: &BStats, t: f64) {
    ctx.transitions += st.calls;
    ctx.states += st.sequences;
    if !st.complete {
        ctx.all_closed = false;
    }
    eprintln!("[{}] engine B {label}: sequences={} calls={} complete={} {:.1}s", cfg.prop, st.sequences, st.calls, st.complete, t);
    ctx.runs.push(J::obj(vec![
        ("label", J::s(&format!("engine B: {label}"))),
        ("letters", J::Int(cfg.letters.len() as i64)),
        ("depth", J::Int(cfg.depth as i64)),
        ("sequences", J::Int(st.sequences as i64)),
        ("calls", J::Int(st.calls as i64)),
        ("all_sequences_of_that_depth_run", J::Bool(st.complete)),
        ("wall_s", J::Num(t)),
    ]));
    ctx.run.sample(J::obj(vec![("engine_B_letters", J::Arr(cfg.letters.iter().take(12).map(|l| J::s(&cfg.label(l))).collect()))]));
}

pub fn run_b(ctx: &mut Ctx, label: &str, cfg: &BCfg, max_secs: f64) -> BStats {
    let t0 = ctx.run.elapsed();
    let st = explore(cfg, &mut ctx.pool, &mut ctx.run, max_secs);
    let t = ctx.run.elapsed() - t0;
    note_b(ctx, label, cfg, &st, t);
    st
}

pub fn std_map(kt: KtId, n_buckets: u64, nkeys: usize, key_len: usize, seed: u64, name: &str) -> BMap {
    let keys = crate::alphabet::keys_in_bucket(kt, n_buckets, 3 % n_buckets, nkeys, key_len, seed, &[]);
    BMap { name: name.to_string(), kt, params: Params::buckets(n_buckets), keys }
}

pub fn letters_updates_reads(map: u8, nkeys: u8, nvals: u8, handles: &[u8], reads: bool) -> Vec<Letter> {
    let mut v = Vec::new();
    for h in handles {
        for k in 0..nkeys {
            for j in 0..nvals {
                v.push(Letter { kind: L_PUT, map, handle: *h, key: k, val: j });
            }
            v.push(Letter { kind: L_DEL, map, handle: *h, key: k, val: 0 });
            if reads {
                v.push(Letter { kind: L_GET, map, handle: *h, key: k, val: 0 });
            }
        }
    }
    if reads {
        v.push(Letter { kind: L_LEN, map, handle: handles[0], key: 0, val: 0 });
        v.push(Letter { kind: L_HAS, map, handle: handles[0], key: 0, val: 0 });
    }
    v
}

pub fn c01_live(ctx: &mut Ctx) {
    if !ctx.run.violations.is_empty() {
        return;
    }
    let seed = ctx.seed;
    let thorough = ctx.thorough();
    // small values: 3 colliding keys x 3 sizes + reads, default handle and a clone
    let cfg = BCfg {
        prop: "C01".into(),
        maps: vec![std_map(KtId::Bytes, 8, 3, 11, seed, "m")],
        val_lens: vec![0, 15, 40],
        letters: letters_updates_reads(0, 3, 3, &[H_FIRST], true),
        depth: if thorough { 5 } else { 4 },
        flags: F_DECODE_END,
        seed,
        reopen: vec![],
        other_params: Params::defaults(),
    };
    run_b(ctx, "3 colliding keys x {0,15,40} + get/len/includes_key, no re-open", &cfg, if thorough { 240.0 } else { 14.0 });
    // multi kilobyte and multi chunk values, so that buffer eviction happens inside a history
    let cfg2 = BCfg {
        prop: "C01".into(),
        maps: vec![std_map(KtId::Bytes, 8, 2, 7, seed, "m")],
        val_lens: if thorough { vec![5000, 140_000, 300_000, 2_100_000] } else { vec![5000, 140_000, 2_100_000] },
        letters: letters_updates_reads(0, 2, if thorough { 4 } else { 3 }, &[H_FIRST, H_CLONE], true),
        depth: 3,
        flags: F_DECODE_END,
        seed,
        reopen: vec![],
        other_params: Params::defaults(),
    };
    run_b(ctx, "2 keys x multi-kilobyte values through the handle and its clone", &cfg2, if thorough { 240.0 } else { 12.0 });
    // a second map of the same key type in the same database, opened before or after the first (its name sorts
    // before the first one's): the history of each map must be answered from its own contents
    for kt in KtId::ALL {
        if !ctx.run.violations.is_empty() {
            break;
        }
        let m0 = std_map(kt, 8, 1, 9, seed, "m");
        let mut m1 = std_map(kt, 8, 1, 9, seed, "a");
        m1.keys = m0.keys.clone();
        let mut letters = Vec::new();
        for mi in 0..2u8 {
            letters.push(Letter { kind: L_PUT, map: mi, handle: H_FIRST, key: 0, val: mi });
            letters.push(Letter { kind: L_DEL, map: mi, handle: H_FIRST, key: 0, val: 0 });
            letters.push(Letter { kind: L_GET, map: mi, handle: H_FIRST, key: 0, val: 0 });
            letters.push(Letter { kind: L_LEN, map: mi, handle: H_FIRST, key: 0, val: 0 });
        }
        let cfg4 = BCfg { prop: "C01".into(), maps: vec![m0, m1], val_lens: vec![5, 9], letters, depth: if thorough { 5 } else { 4 }, flags: F_DECODE_END, seed, reopen: vec![], other_params: Params::defaults() };
        run_b(ctx, &format!("two {} maps `m` and `a` in one database, the same key in both", kt.name()), &cfg4, if thorough { 60.0 } else { 5.0 });
    }
    if thorough {
        let cfg3 = BCfg {
            prop: "C01".into(),
            maps: vec![std_map(KtId::Str, 64, 2, 60_000, seed, "m")],
            val_lens: vec![1, 16 * 1024 * 1024],
            letters: letters_updates_reads(0, 2, 2, &[H_FIRST], true),
            depth: 2,
            flags: F_DECODE_END,
            seed,
            reopen: vec![],
            other_params: Params::defaults(),
        };
        run_b(ctx, "60000-byte keys and a 16 MiB value", &cfg3, 200.0);
    }
}

pub fn c02_live(ctx: &mut Ctx) {
    if !ctx.run.violations.is_empty() {
        return;
    }
    let seed = ctx.seed;
    let thorough = ctx.thorough();
    let mut letters = letters_updates_reads(0, 2, 2, &[H_FIRST], false);
    for p in 0..3u8 {
        letters.push(Letter { kind: L_REOPEN, map: 0, handle: 0, key: p, val: 0 });
    }
    letters.push(Letter { kind: L_DROP_MAPS, map: 0, handle: 0, key: 0, val: 0 });
    letters.push(Letter { kind: L_DROP_DB, map: 0, handle: 0, key: 0, val: 0 });
    letters.push(Letter { kind: L_KEEP_ITER, map: 0, handle: 0, key: 0, val: 0 });
    letters.push(Letter { kind: L_PUT, map: 0, handle: H_CLONE, key: 0, val: 1 });
    // a repeated lookup of the same name must give the same state, not a second instance whose updates are lost at close
    letters.push(Letter { kind: L_PUT, map: 0, handle: H_LOOKUP, key: 1, val: 0 });
    letters.push(Letter { kind: L_PUT, map: 0, handle: H_PARAMS, key: 0, val: 0 });
    let cfg = BCfg {
        prop: "C02".into(),
        maps: vec![std_map(KtId::Bytes, 8, 2, 11, seed, "m")],
        val_lens: vec![3, 300],
        letters,
        depth: if thorough { 5 } else { 4 },
        flags: F_DECODE_END | F_REOPEN_END,
        seed,
        reopen: crate::alphabet::reopen_params(Params::buckets(8))[1..].to_vec(),
        other_params: Params::defaults(),
    };
    run_b(ctx, "updates interleaved with close/re-open under 3 parameter sets, handle-graph letters (drop map / drop db / live iterator / clone)", &cfg, if thorough { 300.0 } else { 20.0 });
    if !ctx.run.violations.is_empty() {
        return;
    }
    // files larger than one buffer chunk, re-opened with the smallest legal buffers
    let mut letters2 = letters_updates_reads(0, 1, 2, &[H_FIRST], false);
    for p in 0..3u8 {
        letters2.push(Letter { kind: L_REOPEN, map: 0, handle: 0, key: p, val: 0 });
    }
    letters2.push(Letter { kind: L_GET, map: 0, handle: H_FIRST, key: 0, val: 0 });
    let tiny = |b: BufP| Params { ht: HtP::Buckets(64), val: b, key: b, htx: b };
    let cfg2 = BCfg {
        prop: "C02".into(),
        maps: vec![std_map(KtId::Bytes, 8, 1, 9, seed, "m")],
        val_lens: vec![10, 140_000],
        letters: letters2,
        depth: 4,
        flags: F_DECODE_END | F_REOPEN_END,
        seed,
        reopen: vec![tiny(BufP::Size(0)), tiny(BufP::Size(65536)), tiny(BufP::Size(131072))],
        other_params: Params::defaults(),
    };
    run_b(ctx, "a 140000-byte value, close/re-open with buffers of Size(0), Size(65536), Size(131072)", &cfg2, if thorough { 120.0 } else { 15.0 });
}

pub fn c18_live(ctx: &mut Ctx) {
    if !ctx.run.violations.is_empty() {
        return;
    }
    crate::engine_c::c18_whole_histories(ctx);
}
