//! Engine B (stub)
#![allow(dead_code)]
use crate::pool::WorkerIo;
use crate::props_a::Ctx;
pub fn worker_job(_k: u8, _payload: &[u8], _io: &mut WorkerIo) -> Vec<u8> { vec![] }
pub fn c01_live(_ctx: &mut Ctx) {}
pub fn c02_live(_ctx: &mut Ctx) {}
pub fn c18_live(_ctx: &mut Ctx) {}
