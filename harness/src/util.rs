//! small helpers: byte buffers, zero-run compression, hex, digest, JSON writer.
#![allow(dead_code)]

use std::fmt::Write as _;

// ---------------------------------------------------------------------------------------------
// byte buffer writer / reader (wire format of the worker protocol and of replay files)

#[derive(Default, Clone)]
pub struct Buf(pub Vec<u8>);

impl Buf {
    pub fn new() -> Self {
        Buf(Vec::new())
    }
    pub fn u8(&mut self, v: u8) -> &mut Self {
        self.0.push(v);
        self
    }
    pub fn u32(&mut self, v: u32) -> &mut Self {
        self.0.extend_from_slice(&v.to_le_bytes());
        self
    }
    pub fn u64(&mut self, v: u64) -> &mut Self {
        self.0.extend_from_slice(&v.to_le_bytes());
        self
    }
    pub fn bytes(&mut self, v: &[u8]) -> &mut Self {
        self.u32(v.len() as u32);
        self.0.extend_from_slice(v);
        self
    }
    pub fn str(&mut self, v: &str) -> &mut Self {
        self.bytes(v.as_bytes())
    }
}

pub struct Rd<'a> {
    pub b: &'a [u8],
    pub p: usize,
}

impl<'a> Rd<'a> {
    pub fn new(b: &'a [u8]) -> Self {
        Rd { b, p: 0 }
    }
    pub fn done(&self) -> bool {
        self.p >= self.b.len()
    }
    pub fn u8(&mut self) -> u8 {
        let v = self.b[self.p];
        self.p += 1;
        v
    }
    pub fn u32(&mut self) -> u32 {
        let mut a = [0u8; 4];
        a.copy_from_slice(&self.b[self.p..self.p + 4]);
        self.p += 4;
        u32::from_le_bytes(a)
    }
    pub fn u64(&mut self) -> u64 {
        let mut a = [0u8; 8];
        a.copy_from_slice(&self.b[self.p..self.p + 8]);
        self.p += 8;
        u64::from_le_bytes(a)
    }
    pub fn bytes(&mut self) -> &'a [u8] {
        let n = self.u32() as usize;
        let v = &self.b[self.p..self.p + n];
        self.p += n;
        v
    }
    pub fn vec(&mut self) -> Vec<u8> {
        self.bytes().to_vec()
    }
    pub fn string(&mut self) -> String {
        String::from_utf8_lossy(self.bytes()).to_string()
    }
}

// ---------------------------------------------------------------------------------------------
// zero-run compression: tokens  0x00 varint(n)            -> n zero bytes
//                               0x01 varint(n) n bytes    -> literal

fn put_varint(out: &mut Vec<u8>, mut n: u64) {
    loop {
        let b = (n & 0x7f) as u8;
        n >>= 7;
        if n == 0 {
            out.push(b);
            return;
        }
        out.push(b | 0x80);
    }
}

fn get_varint(b: &[u8], p: &mut usize) -> u64 {
    let mut n = 0u64;
    let mut sh = 0;
    loop {
        let x = b[*p];
        *p += 1;
        n |= ((x & 0x7f) as u64) << sh;
        if x & 0x80 == 0 {
            return n;
        }
        sh += 7;
    }
}

pub fn rle_compress(data: &[u8]) -> Vec<u8> {
    const MINRUN: usize = 6;
    let mut out = Vec::with_capacity(data.len() / 2 + 16);
    let n = data.len();
    let mut i = 0;
    let mut lit_start = 0;
    while i < n {
        if data[i] == 0 {
            let mut j = i;
            while j < n && data[j] == 0 {
                j += 1;
            }
            if j - i >= MINRUN {
                if i > lit_start {
                    out.push(1);
                    put_varint(&mut out, (i - lit_start) as u64);
                    out.extend_from_slice(&data[lit_start..i]);
                }
                out.push(0);
                put_varint(&mut out, (j - i) as u64);
                lit_start = j;
            }
            i = j;
        } else {
            i += 1;
        }
    }
    if n > lit_start {
        out.push(1);
        put_varint(&mut out, (n - lit_start) as u64);
        out.extend_from_slice(&data[lit_start..n]);
    }
    out
}

pub fn rle_decompress(c: &[u8]) -> Vec<u8> {
    let mut out = Vec::new();
    let mut p = 0;
    while p < c.len() {
        let t = c[p];
        p += 1;
        let n = get_varint(c, &mut p) as usize;
        if t == 0 {
            out.resize(out.len() + n, 0);
        } else {
            out.extend_from_slice(&c[p..p + n]);
            p += n;
        }
    }
    out
}

// ---------------------------------------------------------------------------------------------

pub fn hex(b: &[u8]) -> String {
    let mut s = String::with_capacity(b.len() * 2);
    for x in b {
        let _ = write!(s, "{:02x}", x);
    }
    s
}

pub fn unhex(s: &str) -> Vec<u8> {
    let s = s.trim();
    let b = s.as_bytes();
    let mut out = Vec::with_capacity(b.len() / 2);
    let v = |c: u8| -> u8 {
        match c {
            b'0'..=b'9' => c - b'0',
            b'a'..=b'f' => c - b'a' + 10,
            b'A'..=b'F' => c - b'A' + 10,
            _ => 0,
        }
    };
    let mut i = 0;
    while i + 1 < b.len() {
        out.push(v(b[i]) << 4 | v(b[i + 1]));
        i += 2;
    }
    out
}

/// short human readable form of a byte string (for samples and messages)
pub fn show(b: &[u8]) -> String {
    if b.len() <= 24 {
        if b.iter().all(|c| (0x20..0x7f).contains(c)) && !b.is_empty() {
            format!("'{}'", String::from_utf8_lossy(b))
        } else {
            format!("x{}", hex(b))
        }
    } else {
        format!("x{}..({} bytes,fnv {:08x})", hex(&b[..8]), b.len(), fnv64(b) as u32)
    }
}

pub fn fnv64(b: &[u8]) -> u64 {
    let mut h: u64 = 0xcbf29ce484222325;
    for x in b {
        h ^= *x as u64;
        h = h.wrapping_mul(0x100000001b3);
    }
    h
}

pub fn digest_hex(parts: &[&[u8]]) -> String {
    let mut h: u64 = 0xcbf29ce484222325;
    for p in parts {
        for x in p.iter() {
            h ^= *x as u64;
            h = h.wrapping_mul(0x100000001b3);
        }
        h ^= 0xff;
        h = h.wrapping_mul(0x100000001b3);
    }
    format!("{:016x}", h)
}

/// deterministic pseudo random generator (splitmix64); only used to pick concrete bytes of
/// alphabets from VERIF_SEED, never to sample a space that is claimed to be enumerated.
pub struct SplitMix(pub u64);
impl SplitMix {
    pub fn next(&mut self) -> u64 {
        self.0 = self.0.wrapping_add(0x9E3779B97F4A7C15);
        let mut z = self.0;
        z = (z ^ (z >> 30)).wrapping_mul(0xBF58476D1CE4E5B9);
        z = (z ^ (z >> 27)).wrapping_mul(0x94D049BB133111EB);
        z ^ (z >> 31)
    }
}

// ---------------------------------------------------------------------------------------------
// JSON writer

#[derive(Clone, Debug)]
pub enum J {
    Null,
    Bool(bool),
    Int(i64),
    Num(f64),
    Str(String),
    Arr(Vec<J>),
    Obj(Vec<(String, J)>),
}

impl J {
    pub fn s(v: &str) -> J {
        J::Str(v.to_string())
    }
    pub fn obj(v: Vec<(&str, J)>) -> J {
        J::Obj(v.into_iter().map(|(k, v)| (k.to_string(), v)).collect())
    }
    pub fn push(&mut self, k: &str, v: J) {
        if let J::Obj(o) = self {
            o.push((k.to_string(), v));
        }
    }
    pub fn render(&self) -> String {
        let mut s = String::new();
        self.w(&mut s, 0);
        s.push('\n');
        s
    }
    fn w(&self, s: &mut String, ind: usize) {
        match self {
            J::Null => s.push_str("null"),
            J::Bool(b) => s.push_str(if *b { "true" } else { "false" }),
            J::Int(i) => {
                let _ = write!(s, "{}", i);
            }
            J::Num(f) => {
                if f.is_finite() {
                    let _ = write!(s, "{:.3}", f);
                } else {
                    s.push('0');
                }
            }
            J::Str(v) => json_str(s, v),
            J::Arr(a) => {
                if a.is_empty() {
                    s.push_str("[]");
                    return;
                }
                s.push('[');
                for (i, x) in a.iter().enumerate() {
                    if i > 0 {
                        s.push(',');
                    }
                    s.push('\n');
                    s.push_str(&" ".repeat(ind + 1));
                    x.w(s, ind + 1);
                }
                s.push('\n');
                s.push_str(&" ".repeat(ind));
                s.push(']');
            }
            J::Obj(o) => {
                if o.is_empty() {
                    s.push_str("{}");
                    return;
                }
                s.push('{');
                for (i, (k, x)) in o.iter().enumerate() {
                    if i > 0 {
                        s.push(',');
                    }
                    s.push('\n');
                    s.push_str(&" ".repeat(ind + 1));
                    json_str(s, k);
                    s.push_str(": ");
                    x.w(s, ind + 1);
                }
                s.push('\n');
                s.push_str(&" ".repeat(ind));
                s.push('}');
            }
        }
    }
}

fn json_str(s: &mut String, v: &str) {
    s.push('"');
    for c in v.chars() {
        match c {
            '"' => s.push_str("\\\""),
            '\\' => s.push_str("\\\\"),
            '\n' => s.push_str("\\n"),
            '\r' => s.push_str("\\r"),
            '\t' => s.push_str("\\t"),
            c if (c as u32) < 0x20 => {
                let _ = write!(s, "\\u{:04x}", c as u32);
            }
            c => s.push(c),
        }
    }
    s.push('"');
}
