//! abyv: exhaustive exploration of abyssiniandb (the real crate at /repo) against its properties.
mod alphabet;
mod decoder;
mod engine_a;
mod engine_b;
mod engine_c;
mod props_d;
mod props_e;
mod props_f;
mod props_g;
mod pool;
mod props_a;
mod props_c08;
mod report;
mod subject;
mod util;

use util::Rd;

fn worker() {
    subject::install_quiet_panic_hook();
    let mut aw: Option<engine_a::AWorker> = None;
    pool::worker_main(|job, io| {
        let kind = job[0];
        let payload = &job[1..];
        match kind {
            engine_a::JOB_A_CONFIG => {
                let mut r = Rd::new(payload);
                aw = Some(engine_a::AWorker::new(engine_a::ACfg::dec(r.bytes())));
                vec![0]
            }
            engine_a::JOB_A_BASE => {
                let mut r = Rd::new(payload);
                aw.as_mut().expect("engine A not configured").base = subject::Image::unpack(r.bytes());
                vec![0]
            }
            engine_a::JOB_A_EXPAND => aw.as_mut().expect("engine A not configured").expand(payload, io),
            props_a::JOB_A_SEED => props_a::run_seed(payload),
            k => engine_b::worker_job(k, payload, io),
        }
    });
}

fn main() {
    let args: Vec<String> = std::env::args().collect();
    if args.len() < 2 {
        eprintln!("usage: abyv check <Cnn> <quick|thorough> | abyv replay <file> | abyv worker");
        std::process::exit(2);
    }
    match args[1].as_str() {
        "worker" => worker(),
        "check" => {
            subject::install_quiet_panic_hook();
            let prop = args.get(2).map(|s| s.as_str()).unwrap_or("");
            let tier = args.get(3).map(|s| s.as_str()).unwrap_or("quick");
            let seed: u64 = std::env::var("VERIF_SEED").ok().and_then(|s| s.parse().ok()).unwrap_or(1);
            let code = match prop {
                "C01" => props_a::c01(tier, seed),
                "C02" => props_a::c02(tier, seed),
                "C03" => engine_c::c03(tier, seed),
                "C16" => engine_c::c16(tier, seed),
                "C04" => props_d::c04(tier, seed),
                "C05" => props_a::c05(tier, seed),
                "C06" => props_a::c06(tier, seed),
                "C07" => props_e::c07(tier, seed),
                "C08" => props_c08::c08(tier, seed),
                "C09" => props_f::c09(tier, seed),
                "C10" => props_f::c10(tier, seed),
                "C11" => props_g::c11(tier, seed),
                "C12" => props_g::c12(tier, seed),
                "C13" => props_f::c13(tier, seed),
                "C14" => props_f::c14(tier, seed),
                "C15" => props_a::c15(tier, seed),
                "C17" => props_a::c17(tier, seed),
                "C18" => props_a::c18(tier, seed),
                _ => {
                    eprintln!("unknown property {prop}");
                    2
                }
            };
            std::process::exit(code);
        }
        "replay" => {
            subject::install_quiet_panic_hook();
            let path = std::path::PathBuf::from(args.get(2).cloned().unwrap_or_default());
            match report::Replay::read(&path) {
                Some((prop, r, message)) => {
                    println!("replaying {} (property {prop}): {message}", path.display());
                    for l in &r.story {
                        println!("  | {l}");
                    }
                    let code = match r.engine.as_str() {
                        "A" => engine_a::replay(&r.config, &r.case),
                        "B" => engine_b::replay(&r.config, &r.case),
                        "seed" => props_a::replay_seed(&r.config),
                        "C12s" => props_g::replay_c12s(&r.config),
                        "C08s" => props_c08::replay_sparse(&r.config),
                        // the dotted-name cases are re-created from the golden images: the whole quick check is the replay
                        "C12n" => {
                            std::env::set_var("ABYV_OUT", std::env::temp_dir().join("abyv-replay-out"));
                            if props_g::c12("quick", 1) == 0 {
                                println!("REPLAY: no violation reproduced");
                                0
                            } else {
                                println!("REPLAY VIOLATION");
                                1
                            }
                        }
                        "C04" => props_d::replay_c04(&r.config),
                        "C07" => props_e::replay_c07(&r.config, &r.case),
                        "C09a" | "C09b" => props_f::replay_c09(&r.engine, &r.case),
                        "C10" => props_f::replay_generic(props_f::JOB_F_C10, &r.case),
                        "C13" => props_f::replay_generic(props_f::JOB_F_C13, &r.case),
                        "C14" => props_f::replay_generic(props_f::JOB_F_C14, &r.case),
                        "C03" => engine_c::replay_c03(&r.config, &r.case),
                        "C16" => engine_c::replay_c16(&r.config, &r.case),
                        "C18" => engine_c::replay_c18(&r.config, &r.case),
                        "C18m" => engine_c::replay_c18m(&r.config, &r.case),
                        _ => {
                            eprintln!("unknown engine {}", r.engine);
                            2
                        }
                    };
                    std::process::exit(code);
                }
                None => {
                    eprintln!("cannot read replay file");
                    std::process::exit(2);
                }
            }
        }
        _ => {
            eprintln!("unknown command");
            std::process::exit(2);
        }
    }
}
