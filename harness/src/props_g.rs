//! C11, C12 (stub)
#![allow(dead_code)]
use crate::pool::WorkerIo;
pub fn worker_job(_kind: u8, _payload: &[u8], _io: &mut WorkerIo) -> Vec<u8> { Vec::new() }
