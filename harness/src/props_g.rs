//! C11 (isolation and aliasing of named maps, engine B) and C12 (golden images as start states).
#![allow(dead_code)]

use crate::decoder;
use crate::engine_a::*;
use crate::engine_b::*;
use crate::pool::{JobResult, WorkerIo};
use crate::props_a::{run_closure, Ctx};
use crate::report::{Replay, Violation};
use crate::subject::*;
use crate::util::{fnv64, unhex, Buf, Rd, J};
use std::collections::{BTreeMap, HashMap};

pub const JOB_G_C11: u8 = 70;
pub const JOB_G_C12_SWEEP: u8 = 71;

// ---------------------------------------------------------------------------------------------
// C11

/// like BWorker::run, but also returns for every sequence and every map the projection of the
/// sequence onto that map together with a digest of the map's files after close
fn c11_run(bw: &mut BWorker, payload: &[u8], io: &mut WorkerIo) -> Vec<u8> {
    let mut r = Rd::new(payload);
    let prefix = r.vec();
    let only = r.u64();
    let cfg = bw.cfg.clone();
    let mut out = BOutcome::default();
    let free = cfg.depth as usize - prefix.len();
    let a = cfg.letters.len() as u64;
    let total = a.pow(free as u32);
    let mut seq = prefix.clone();
    seq.resize(cfg.depth as usize, 0);
    let mut proj = Buf::new();
    let mut nproj = 0u32;
    let range = if only == u64::MAX { 0..total } else { only..only + 1 };
    for idx in range {
        let mut x = idx;
        for p in (prefix.len()..cfg.depth as usize).rev() {
            seq[p] = (x % a) as u8;
            x /= a;
        }
        io.progress(idx);
        out.sequences += 1;
        let s = seq.clone();
        if let Some((pos, msg)) = bw.run_sequence(&s, &mut out, None) {
            let key = if msg.contains("via") && msg.contains("model") { "alias-or-isolation".to_string() } else { "call".to_string() };
            out.failure = Some((s, pos, key, msg));
            break;
        }
        for (mi, img) in out.images.iter().enumerate() {
            if img.is_empty() {
                continue;
            }
            // projection: the letters that update map mi (kind, key, value); handles do not matter
            let mut p: Vec<u8> = Vec::new();
            for li in &s {
                let l = cfg.letters[*li as usize];
                if l.map as usize == mi && BCfg::is_update(&l) {
                    p.extend([l.kind, l.key, l.val]);
                }
            }
            proj.u8(mi as u8).bytes(&p).u64(fnv64(img)).u32(img.len() as u32);
            nproj += 1;
        }
    }
    let mut res = Buf::new();
    res.bytes(&out.enc()).u32(nproj);
    res.0.extend_from_slice(&proj.0);
    res.0
}

fn c11_explore(ctx: &mut Ctx, cfg: &BCfg, limit: f64, label: &str) {
    ctx.pool.reinit(vec![{
        let mut b = Buf::new();
        b.u8(JOB_B_CONFIG).bytes(&cfg.enc());
        b.0
    }]);
    let a = cfg.letters.len();
    // quick: depth 3 (all sequences); thorough: depth 4 over a reduced handle set is too large for
    // 61 letters, so thorough = depth 3 with 4 maps (61^3) plus depth 4 on 2 maps
    let mut prefixes: Vec<Vec<u8>> = Vec::new();
    for x in 0..a {
        for y in 0..a {
            prefixes.push(vec![x as u8, y as u8]);
        }
    }
    let t0 = ctx.run.elapsed();
    let mut memo: HashMap<(u8, Vec<u8>), (u64, u32, Vec<u8>)> = HashMap::new();
    let mut complete = true;
    let mut sequences = 0u64;
    let mut calls = 0u64;
    let mut proj_checked = 0u64;
    for chunk in prefixes.chunks(ctx.pool.size() * 8) {
        if ctx.run.elapsed() - t0 > limit {
            complete = false;
            break;
        }
        let jobs: Vec<Vec<u8>> = chunk
            .iter()
            .map(|p| {
                let mut b = Buf::new();
                b.u8(JOB_G_C11).bytes(p).u64(u64::MAX);
                b.0
            })
            .collect();
        let results = ctx.pool.map(&jobs, |i| i);
        for (i, res) in results.into_iter().enumerate() {
            match res {
                JobResult::Done(b) => {
                    let mut r = Rd::new(&b);
                    let o = BOutcome::dec(r.bytes());
                    sequences += o.sequences;
                    calls += o.calls;
                    if let Some((seq, pos, key, msg)) = o.failure {
                        let mut case = Buf::new();
                        case.bytes(&seq);
                        let mut story = seq_story(cfg, &seq, pos);
                        story.push(format!("observed: {msg}"));
                        ctx.run.violation(Violation { prop: "C11".into(), key, message: msg, replay: Replay { engine: "B".into(), config: cfg.enc(), case: case.0, story } });
                    }
                    let np = r.u32();
                    for _ in 0..np {
                        let mi = r.u8();
                        let p = r.vec();
                        let dg = r.u64();
                        let len = r.u32();
                        proj_checked += 1;
                        match memo.get(&(mi, p.clone())) {
                            None => {
                                memo.insert((mi, p), (dg, len, chunk[i].clone()));
                            }
                            Some((d0, l0, first_prefix)) => {
                                if *d0 != dg || *l0 != len {
                                    let msg = format!("the files of map {} differ between two histories that contain exactly the same updates of that map (in the same order) and differ only in what happens to the other maps / which handles are used (first seen under prefix {:?}, now under prefix {:?})", cfg.maps[mi as usize].name, first_prefix, chunk[i]);
                                    let mut case = Buf::new();
                                    let mut s = chunk[i].clone();
                                    s.push(0);
                                    case.bytes(&s);
                                    ctx.run.violation(Violation { prop: "C11".into(), key: "projection:files-depend-on-other-maps".into(), message: msg.clone(), replay: Replay { engine: "B".into(), config: cfg.enc(), case: case.0, story: vec![msg] } });
                                }
                            }
                        }
                    }
                }
                JobResult::Crashed { how, progress } => {
                    let msg = format!("sequences under prefix {:?} do not return normally at completion {:?}: {how}", chunk[i], progress);
                    let mut case = Buf::new();
                    let mut s = chunk[i].clone();
                    s.push(progress.unwrap_or(0) as u8);
                    case.bytes(&s);
                    ctx.run.violation(Violation { prop: "C11".into(), key: "crash".into(), message: msg.clone(), replay: Replay { engine: "B".into(), config: cfg.enc(), case: case.0, story: vec![msg] } });
                }
            }
        }
        if !ctx.run.violations.is_empty() {
            complete = false;
            break;
        }
    }
    eprintln!("[C11] sequences={sequences} calls={calls} projections={} checked={proj_checked} complete={complete} {:.1}s", memo.len(), ctx.run.elapsed() - t0);
    ctx.states += sequences;
    ctx.transitions += calls;
    if !complete {
        ctx.all_closed = false;
    }
    ctx.run.add("distinct_projections", memo.len() as i64);
    ctx.run.add("projection_comparisons", proj_checked as i64);
    ctx.runs.push(J::obj(vec![
        ("label", J::s(label)),
        ("maps", J::Arr(cfg.maps.iter().map(|m| J::s(&format!("{} ({})", m.name, m.kt.name()))).collect())),
        ("letters", J::Int(a as i64)),
        ("depth", J::Int(cfg.depth as i64)),
        ("sequences", J::Int(sequences as i64)),
        ("calls", J::Int(calls as i64)),
        ("all_sequences_of_that_depth_run", J::Bool(complete)),
    ]));
    for l in cfg.letters.iter().step_by(7) {
        ctx.run.sample(J::s(&cfg.label(l)));
    }
}

pub fn c11(tier: &str, seed: u64) -> i32 {
    let mut ctx = Ctx::new("C11", tier, seed, "model_checking");
    let thorough = ctx.thorough();
    // two maps of the same type whose names differ only after a dot, and one map of every other type;
    // maps 0/1 and 2/3 (names differing only in letter case) share their keys on purpose: the same key in two maps must stay two entries
    let mut maps = vec![
        std_map(KtId::Str, 8, 2, 5, seed, "users.v1"),
        std_map(KtId::Str, 8, 2, 5, seed, "users.v2"),
        std_map(KtId::Bytes, 8, 2, 5, seed ^ 9, "Cc"),
        std_map(KtId::Bytes, 8, 2, 5, seed ^ 9, "cc"),
        std_map(KtId::U64, 8, 2, 8, seed, "d"),
    ];
    maps[1].keys = maps[0].keys.clone();
    maps.push(std_map(KtId::I64, 8, 2, 8, seed, "e"));
    maps.push(std_map(KtId::Vu64, 8, 2, 8, seed, "f.g"));
    let _ = thorough;
    let mut letters = Vec::new();
    for mi in 0..maps.len() as u8 {
        for h in 0..5u8 {
            letters.push(Letter { kind: L_PUT, map: mi, handle: h, key: 0, val: mi % 2 });
            letters.push(Letter { kind: L_DEL, map: mi, handle: h, key: 0, val: 0 });
        }
        letters.push(Letter { kind: L_PUT, map: mi, handle: H_FIRST, key: 1, val: 1 - mi % 2 });
        letters.push(Letter { kind: L_PUT, map: mi, handle: H_PARAMS, key: 1, val: 1 - mi % 2 });
    }
    letters.push(Letter { kind: L_DB_SYNC_ALL, map: 0, handle: 0, key: 0, val: 0 });
    // two handles of one map inside one call: put_from_iter on a handle, fed by the iterator of its clone
    letters.push(Letter { kind: L_PFI_ALIAS, map: 0, handle: H_FIRST, key: 0, val: 0 });
    letters.push(Letter { kind: L_PFI_ALIAS, map: 4, handle: H_LOOKUP, key: 0, val: 0 });
    let cfg = BCfg {
        prop: "C11".into(),
        maps,
        val_lens: vec![7, 90],
        letters,
        depth: 3,
        flags: F_OBSERVE_ALL | F_DECODE_END | F_RETURN_IMAGES,
        seed,
        reopen: vec![],
        other_params: Params { ht: HtP::Buckets(1024), val: BufP::Size(262144), key: BufP::Auto, htx: BufP::Auto },
    };
    c11_explore(&mut ctx, &cfg, if thorough { 600.0 } else { 45.0 }, "handle kinds");
    if ctx.run.violations.is_empty() {
        // names that a careless normalisation would identify: pairs differing only by a trailing or leading
        // blank, by letter case, by what follows a dot, by a trailing dot; each pair of one key type, same keys
        let names: [(&str, &str, KtId); 6] = [("idx", "idx ", KtId::Str), (" lead", "lead", KtId::Bytes), ("Name", "name", KtId::U64), ("a.b", "a.c", KtId::I64), ("dot.", "dot", KtId::Vu64), ("m:x?", "m_x_", KtId::Str)];
        let mut maps2: Vec<BMap> = Vec::new();
        for (x, y, kt) in names {
            let m1 = std_map(kt, 8, 2, 6, seed, x);
            let mut m2 = std_map(kt, 8, 2, 6, seed, y);
            m2.keys = m1.keys.clone();
            maps2.push(m1);
            maps2.push(m2);
        }
        let mut letters2 = Vec::new();
        for mi in 0..maps2.len() as u8 {
            letters2.push(Letter { kind: L_PUT, map: mi, handle: H_FIRST, key: 0, val: mi % 2 });
            letters2.push(Letter { kind: L_DEL, map: mi, handle: H_LOOKUP, key: 0, val: 0 });
            letters2.push(Letter { kind: L_PUT, map: mi, handle: H_PARAMS, key: 1, val: 1 - mi % 2 });
        }
        letters2.push(Letter { kind: L_DB_SYNC_ALL, map: 0, handle: 0, key: 0, val: 0 });
        let cfg2 = BCfg { maps: maps2, letters: letters2, ..cfg.clone() };
        c11_explore(&mut ctx, &cfg2, if thorough { 300.0 } else { 30.0 }, "look-alike names");
    }
    if ctx.run.violations.is_empty() {
        // deeper histories on two maps through different handle kinds: slots of two neighbouring classes are
        // freed and reused in one map (values of 200 and 300 bytes) while the other map is watched
        let mut m0 = std_map(KtId::Bytes, 8, 2, 6, seed, "left");
        let mut m1 = std_map(KtId::Bytes, 8, 2, 6, seed, "left.right");
        m1.keys = m0.keys.clone();
        m0.params.ht = HtP::Buckets(1);
        m1.params.ht = HtP::Buckets(1);
        let letters3 = vec![
            Letter { kind: L_PUT, map: 0, handle: H_FIRST, key: 0, val: 0 },
            Letter { kind: L_PUT, map: 0, handle: H_CLONE, key: 1, val: 1 },
            Letter { kind: L_DEL, map: 0, handle: H_LOOKUP, key: 0, val: 0 },
            Letter { kind: L_DEL, map: 0, handle: H_DBCLONE, key: 1, val: 0 },
            Letter { kind: L_PUT, map: 1, handle: H_FIRST, key: 0, val: 1 },
            Letter { kind: L_DEL, map: 1, handle: H_CLONE, key: 0, val: 0 },
            // a value longer than one 4 KiB buffer chunk
            Letter { kind: L_PUT, map: 0, handle: H_LOOKUP, key: 0, val: 2 },
        ];
        let cfg3 = BCfg { maps: vec![m0, m1], letters: letters3, val_lens: vec![200, 300, 5000], depth: if thorough { 8 } else { 6 }, ..cfg.clone() };
        c11_explore(&mut ctx, &cfg3, if thorough { 300.0 } else { 20.0 }, "slot reuse in one map while the other is watched");
    }
    let rule = "bounded-exhaustive call sequences on live handles (engine B) over several named maps of mixed key types in one directory (maps a and b use the same keys): letters = {put k1, delete k1, put k2} on map i through handle kind h in {first handle, its clone, repeated lookup, lookup through db.clone(), *_with_params(other parameters)} plus db.sync_all; all sequences of the depth. oracle after every call: every live handle of every map answers get of every key and len per that map's own model (aliases see each other at once, other maps unchanged); at the end every map's files decode to its model; projection differential: the files of map j are a function of the subsequence of updates of map j alone - compared byte-digest-wise across all sequences with the same projection. non-trivial = projection comparisons";
    ctx.finish_model_checking(rule, &["projection_comparisons"])
}

// ---------------------------------------------------------------------------------------------
// C12

/// C12: from the release-written image, every single entry in turn is overwritten one byte longer, much
/// longer, with the empty value, and deleted (each from the original image); the result must decode to
/// the expected contents. This touches every slot (of every size class) the release wrote.
fn c12_sweep(payload: &[u8], io: &mut WorkerIo) -> Vec<u8> {
    let mut r = Rd::new(payload);
    let kt = KtId::from_u8(r.u8());
    let img = Image::unpack(r.bytes());
    let n = r.u32();
    let mut expected: BTreeMap<Vec<u8>, Vec<u8>> = BTreeMap::new();
    for _ in 0..n {
        let k = r.vec();
        let v = r.vec();
        expected.insert(k, v);
    }
    let scratch = Scratch::new("c12");
    let dir = scratch.fresh("d");
    let p = Params::buckets(64);
    let mut out = Buf::new();
    let mut evals = 0u64;
    let keys: Vec<Vec<u8>> = expected.keys().cloned().collect();
    for (ei, k) in keys.iter().enumerate() {
        io.progress(ei as u64);
        let old = expected[k].clone();
        let variants: Vec<Option<Vec<u8>>> = vec![
            Some(crate::engine_a::value_bytes(7, ei as u64, 1, old.len() + 1)),
            Some(crate::engine_a::value_bytes(7, ei as u64, 2, old.len() * 2 + 50)),
            Some(crate::engine_a::value_bytes(7, ei as u64, 3, old.len().saturating_sub(1))),
            Some(Vec::new()),
            None,
            // a value of 20 000 bytes (three-byte length field), only for every 8th entry
            if ei % 8 == 0 { Some(crate::engine_a::value_bytes(7, ei as u64, 4, 20_000)) } else { Some(Vec::new()) },
        ];
        for (vi, nv) in variants.iter().enumerate() {
            evals += 1;
            clear_dir(&dir);
            let _ = img.write(&dir, MAP_NAME);
            let mut model = expected.clone();
            let what = match nv {
                Some(v) => format!("overwrite of the {}-byte value of key {} with {} bytes", old.len(), crate::util::show(k), v.len()),
                None => format!("delete of key {} ({}-byte value)", crate::util::show(k), old.len()),
            };
            let res: Result<(), String> = crate::with_kt!(kt, T => {
                match open_map::<T>(&dir, MAP_NAME, &p) {
                    Out::Ok((db, mut m)) => {
                        use abyssiniandb::DbXxx;
                        let r = match nv {
                            Some(v) => {
                                model.insert(k.clone(), v.clone());
                                match guard(|| DbXxx::put(&mut m, &k[..], v)) { Out::Ok(()) => Ok(()), o => Err(o.failed().unwrap_or_default()) }
                            }
                            None => {
                                let exp = model.remove(k);
                                match guard(|| DbXxx::delete(&mut m, &k[..])) { Out::Ok(got) if got == exp => Ok(()), Out::Ok(_) => Err("returned a wrong value".to_string()), o => Err(o.failed().unwrap_or_default()) }
                            }
                        };
                        // a second entry is read through the same handle
                        let other = &keys[(ei + 1) % keys.len()];
                        let r2 = if r.is_ok() && other != k { match guard(|| DbXxx::get(&mut m, &other[..])) { Out::Ok(g) if g == model.get(other).cloned() => Ok(()), o => Err(format!("afterwards get of another key gives {:?}", o.failed())) } } else { Ok(()) };
                        // and the updated entry itself, through the same handle
                        let r3 = if r.is_ok() { match guard(|| DbXxx::get(&mut m, &k[..])) { Out::Ok(g) if g == model.get(k).cloned() => Ok(()), Out::Ok(_) => Err("afterwards get of the updated key returns a wrong value".to_string()), o => Err(format!("afterwards get of the updated key {}", o.failed().unwrap_or_default())) } } else { Ok(()) };
                        let _ = guard_plain(move || { drop(m); drop(db); });
                        // and once more after a re-open
                        let r4 = if r.is_ok() && r3.is_ok() {
                            match open_map::<T>(&dir, MAP_NAME, &p) {
                                Out::Ok((db, mut m)) => {
                                    let g = guard(|| DbXxx::get(&mut m, &k[..]));
                                    let _ = guard_plain(move || { drop(m); drop(db); });
                                    match g { Out::Ok(g) if g == model.get(k).cloned() => Ok(()), Out::Ok(_) => Err("after a re-open get of the updated key returns a wrong value".to_string()), o => Err(format!("after a re-open get of the updated key {}", o.failed().unwrap_or_default())) }
                                }
                                o => Err(format!("re-open {}", o.failed().unwrap_or_default())),
                            }
                        } else { Ok(()) };
                        r.and(r2).and(r3).and(r4)
                    }
                    o => Err(format!("open {}", o.failed().unwrap_or_default())),
                }
            });
            let complaint = match res {
                Err(e) => Some(e),
                Ok(()) => match Image::read(&dir, MAP_NAME) {
                    Ok(after) => {
                        let d = decoder::decode(&after.htx, &after.key, &after.val);
                        if let Some((c, m)) = d.errors.first() {
                            Some(format!("afterwards the files do not decode (clause {}): {m}", c.name()))
                        } else if d.contents != model {
                            Some("afterwards the decoded contents differ from the expected ones".to_string())
                        } else {
                            None
                        }
                    }
                    Err(e) => Some(format!("files unreadable: {e}")),
                },
            };
            if let Some(c) = complaint {
                out.u8(1).str(&format!("golden-update:{}", ["grow1", "grow", "shrink1", "empty", "delete"][vi])).str(&format!("{what}: {c}")).u64(evals);
                return out.0;
            }
        }
    }
    out.u8(0).u64(evals);
    out.0
}

fn read_expected(dir: &std::path::Path) -> Option<BTreeMap<Vec<u8>, Vec<u8>>> {
    let txt = std::fs::read_to_string(dir.join("expected.txt")).ok()?;
    let mut m = BTreeMap::new();
    for line in txt.lines() {
        let mut it = line.split(' ');
        let k = unhex(it.next().unwrap_or(""));
        let v = unhex(it.next().unwrap_or(""));
        m.insert(k, v);
    }
    Some(m)
}

pub fn c12(tier: &str, seed: u64) -> i32 {
    let mut ctx = Ctx::new("C12", tier, seed, "model_checking");
    let thorough = ctx.thorough();
    let root = crate::report::verif_root().join("golden");
    let mut images = 0;
    let mut sweep_jobs: Vec<(String, Vec<u8>)> = Vec::new();
    for kt in KtId::ALL {
        for hist in ["inserts", "deletes-overwrites", "large-slots", "all-classes", "key-classes"] {
            // the key-classes history (a live key and a freed slot of every key slot class) exists for the byte-string key types
            if hist == "key-classes" && !matches!(kt, KtId::Bytes | KtId::Str) {
                continue;
            }
            let dir = root.join(kt.name()).join(hist);
            let label = format!("golden/{}/{}", kt.name(), hist);
            let (img, expected) = match (Image::read(&dir, MAP_NAME), read_expected(&dir)) {
                (Ok(i), Some(e)) => (i, e),
                _ => crate::report::machinery_failure(&format!("golden image {label} is missing")),
            };
            images += 1;
            // the independent decoder must recover the recorded contents (binds the decoder to the
            // released format and the released format to the documentation)
            let d = decoder::decode(&img.htx, &img.key, &img.val);
            if !d.errors.is_empty() || d.contents != expected || d.sig2[0] != kt.signature() {
                crate::report::machinery_failure(&format!("the independent decoder does not recover {label}: {:?}", d.errors.first()));
            }
            // alphabet: two existing keys (one of them in a chain if there is one), one new key
            let mut existing: Vec<Vec<u8>> = Vec::new();
            if let Some(k) = d.live.iter().find(|k| k.pos >= 1) {
                existing.push(k.key.clone());
            }
            for k in d.live.iter() {
                if existing.len() < 2 && !existing.contains(&k.key) && !k.key.is_empty() {
                    existing.push(k.key.clone());
                }
            }
            let newk = crate::alphabet::keys_in_bucket(kt, d.n, d.live[0].bucket, 1, 9, seed, &expected.keys().cloned().collect::<Vec<_>>());
            let mut keys = existing.clone();
            keys.extend(newk);
            let absent = crate::alphabet::absent_keys(kt, seed, &expected.keys().cloned().collect::<Vec<_>>());
            sweep_jobs.push({
                let mut b = Buf::new();
                b.u8(JOB_G_C12_SWEEP).u8(kt as u8).bytes(&img.pack()).u32(expected.len() as u32);
                for (k, v) in &expected {
                    b.bytes(k).bytes(v);
                }
                (label.clone(), b.0)
            });
            let vals: Vec<u32> = if hist == "large-slots" || hist == "all-classes" { vec![30, 1000, 2000] } else { vec![0, 30, 200] };
            let mut cfg = ACfg::new("C12", kt, crate::alphabet::reopen_params(Params::buckets(64)), keys.clone(), absent, vals, seed);
            cfg.extras = expected.iter().filter(|(k, _)| !keys.contains(k)).map(|(k, v)| (k.clone(), v.clone())).collect();
            cfg.init_vals = keys.iter().map(|k| expected.get(k).cloned()).collect();
            cfg.oracles = O_API | O_REOPEN | O_ITER | O_DEC | O_DEC_CONTENTS | O_ALLOC | O_STATS | O_RO;
            cfg.ro_mode = 1;
            cfg.clauses = ALL_CLAUSES;
            // the image's own history may have used more slots of a size than entries are live now
            let mut per: HashMap<u32, u32> = HashMap::new();
            for sl in d.keyf.slots.values().chain(d.valf.slots.values()) {
                *per.entry(sl.size).or_insert(0) += 1;
            }
            cfg.slot_slack = per.values().copied().max().unwrap_or(0);
            let code: Vec<u8> = keys.iter().map(|k| if expected.contains_key(k) { 255 } else { 0 }).collect();
            let start = Start { label: label.clone(), image: img, code };
            let (cap, secs) = if thorough { (300_000, 60.0) } else { (4_000, 3.0) };
            run_closure(&mut ctx, &format!("{label}: opened read-only, then every history over 2 existing keys + 1 new key x {:?}", cfg.vals), &cfg, vec![start], cap, secs);
        }
    }
    ctx.run.add("golden_images", images);
    // a release-written map whose name contains dots: the three files are `<name>.htx/.key/.val`, whatever the name is
    if ctx.run.violations.is_empty() {
        for kt in [KtId::Bytes, KtId::U64] {
            let dir = root.join(kt.name()).join("deletes-overwrites");
            let (img, expected) = match (Image::read(&dir, MAP_NAME), read_expected(&dir)) {
                (Ok(i), Some(e)) => (i, e),
                _ => continue,
            };
            let scratch = Scratch::new("c12name");
            for name in ["fruits.2023", "a.b.c", "v1.0."] {
                let d = scratch.fresh("d");
                if img.write(&d, name).is_err() {
                    crate::report::machinery_failure("cannot write a renamed golden image");
                }
                let before = Image::read(&d, name).ok();
                let complaint: Option<String> = crate::with_kt!(kt, T => {
                    match open_map::<T>(&d, name, &Params::buckets(64)) {
                        Out::Ok((db, mut m)) => {
                            use abyssiniandb::DbXxx;
                            let mut bad = None;
                            if guard(|| abyssiniandb::DbXxxBase::len(&m)) != Out::Ok(expected.len() as u64) {
                                bad = Some("len() differs from the recorded contents".to_string());
                            }
                            for (k, v) in expected.iter() {
                                if bad.is_none() && guard(|| DbXxx::get(&mut m, &k[..])) != Out::Ok(Some(v.clone())) {
                                    bad = Some(format!("get({}) differs from the recorded contents", crate::util::show(k)));
                                }
                            }
                            let _ = guard_plain(move || { drop(m); drop(db); });
                            bad
                        }
                        o => Some(format!("open {}", o.failed().unwrap_or_default())),
                    }
                });
                let complaint = complaint.or_else(|| {
                    let after = Image::read(&d, name).ok();
                    let extra: Vec<String> = std::fs::read_dir(&d).map(|r| r.filter_map(|e| e.ok()).map(|e| e.file_name().to_string_lossy().to_string()).filter(|f| !f.starts_with(name)).collect()).unwrap_or_default();
                    if after != before {
                        Some("the three files changed by opening and reading".to_string())
                    } else if !extra.is_empty() {
                        Some(format!("other files appeared in the directory: {:?}", extra))
                    } else {
                        None
                    }
                });
                ctx.run.add("golden_images_under_dotted_names", 1);
                if let Some(c) = complaint {
                    let msg = format!("golden/{}/deletes-overwrites stored as map `{name}` ({name}.htx, {name}.key, {name}.val): {c}", kt.name());
                    ctx.run.violation(Violation { prop: "C12".into(), key: format!("dotted-name:{}", kt.name()), message: msg.clone(), replay: Replay { engine: "C12n".into(), config: vec![], case: vec![], story: vec![msg, "replay: run ./check C12 quick (the case is re-created from the golden image)".into()] } });
                }
            }
        }
    }
    // chain links of three bytes next to value offsets of two in files written now (key file beyond 192 KiB): the
    // records must have the documented encoding and stay inside their slots
    if ctx.run.violations.is_empty() {
        let specs200 = vec![crate::props_c08::SeedSpec { file: "key", boundary: 200 * 1024, eps: 0, free_slots: 2, val_pad: 1201 }];
        crate::props_c08::seeded_group(&mut ctx, "C12", O_API | O_DEC | O_DEC_CONTENTS, ALL_CLAUSES, 3, vec![3], &specs200, 30_000, 6.0);
    }
    // every entry of every golden image updated once, from the original image
    if ctx.run.violations.is_empty() {
        ctx.pool.reinit(vec![]);
        let payloads: Vec<Vec<u8>> = sweep_jobs.iter().map(|j| j.1.clone()).collect();
        let results = ctx.pool.map(&payloads, |i| i);
        for (i, res) in results.into_iter().enumerate() {
            match res {
                JobResult::Done(b) => {
                    let mut r = Rd::new(&b);
                    if r.u8() == 0 {
                        let e = r.u64();
                        ctx.run.add("golden_entry_updates", e as i64);
                        ctx.transitions += e;
                    } else {
                        let key = r.string();
                        let msg = r.string();
                        ctx.run.violation(Violation { prop: "C12".into(), key, message: format!("{}: {msg}", sweep_jobs[i].0), replay: Replay { engine: "C12s".into(), config: sweep_jobs[i].1.clone(), case: vec![], story: vec![sweep_jobs[i].0.clone(), msg] } });
                    }
                }
                JobResult::Crashed { how, progress } => {
                    let msg = format!("{}: updating entry #{:?} of the release-written image does not return normally: {how}", sweep_jobs[i].0, progress);
                    ctx.run.violation(Violation { prop: "C12".into(), key: "golden-update:crash".into(), message: msg.clone(), replay: Replay { engine: "C12s".into(), config: sweep_jobs[i].1.clone(), case: vec![], story: vec![msg] } });
                }
            }
        }
    }
    // N-version check of the oracle itself: a second decoder, written independently in Python from the
    // same documentation (notes/decoder_prototype.py), must accept every golden image as well
    let proto = crate::report::verif_root().join("notes/decoder_prototype.py");
    if proto.exists() {
        for kt in KtId::ALL {
            for hist in ["inserts", "deletes-overwrites", "large-slots", "all-classes", "key-classes"] {
                if hist == "key-classes" && !matches!(kt, KtId::Bytes | KtId::Str) {
                    continue;
                }
                let dir = root.join(kt.name()).join(hist);
                match std::process::Command::new("python3").arg(&proto).arg(&dir).output() {
                    Ok(o) if o.status.success() && String::from_utf8_lossy(&o.stdout).contains("OK n=") => ctx.run.add("python_decoder_agreements", 1),
                    Ok(o) => {
                        let msg = format!("the Python decoder rejects golden/{}/{hist}: {}", kt.name(), String::from_utf8_lossy(&o.stderr).lines().last().unwrap_or(""));
                        ctx.run.notes.push(msg);
                        ctx.run.add("python_decoder_disagreements", 1);
                    }
                    Err(_) => {
                        ctx.run.notes.push("python3 not available: the second decoder was not run".into());
                        break;
                    }
                }
            }
        }
        if ctx.run.get("python_decoder_disagreements") > 0 {
            crate::report::machinery_failure("the two independently written decoders disagree on a golden image (oracle defect, no verdict)");
        }
    }
    // capped runs are expected here (the point is the start state and its neighbourhood)
    let rule = "golden images written by the pinned release (5 key types x {inserts only; deletes+overwrites with non-empty free lists; large slots with overwrites; a live and a freed value slot of every class}, and for the byte-string key types a live key and a freed slot of every key slot class) are start states of the image-graph search: (1) the independent decoder, written from the documentation, must recover the recorded contents from the released bytes (header layout, /8 offset encoding, vu64, placement hash); (2) on the start state and every successor the current build must answer get/includes_key/len/is_empty, all iterators, re-open under other parameters and the statistics per the model, leave the files byte-identical under a read-only session, and obey the allocation rule; successors come from every history over two existing keys and one new key, breadth first to closure or the stated cap. non-trivial = states decoded whose contents come from the release-written image";
    ctx.finish_model_checking(rule, &["decoded_states"])
}

pub fn replay_c12s(job: &[u8]) -> i32 {
    let mut io = WorkerIo::sink();
    let b = c12_sweep(&job[1..], &mut io);
    let mut r = Rd::new(&b);
    if r.u8() == 0 {
        println!("REPLAY: no violation reproduced ({} updates)", r.u64());
        0
    } else {
        let key = r.string();
        let msg = r.string();
        println!("REPLAY VIOLATION [{key}]: {msg}");
        1
    }
}

pub fn worker_job(kind: u8, payload: &[u8], io: &mut WorkerIo) -> Vec<u8> {
    match kind {
        JOB_G_C12_SWEEP => c12_sweep(payload, io),
        JOB_G_C11 => with_bworker(|bw| c11_run(bw, payload, io)),
        crate::props_c08::JOB_C08_SPARSE => crate::props_c08::sparse_job(payload, io),
        _ => Vec::new(),
    }
}
