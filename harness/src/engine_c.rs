//! Engine C: the I/O boundary. Crash points at every durability call (C03), refused writes inside a
//! durability call (C16), and whole-history double execution (C18), all on engine B's interpreter.
#![allow(dead_code)]

use crate::engine_b::*;
use crate::pool::{JobResult, Pool, WorkerIo};
use crate::props_a::Ctx;
use crate::report::{Replay, Violation};
use crate::subject::*;
use crate::util::{Buf, Rd, J};
use std::collections::BTreeMap;
use std::path::{Path, PathBuf};

pub const L_REFUSED_FLUSH: u8 = 40;
pub const JOB_C03_RUN: u8 = 30;
pub const JOB_C03_EXAMINE: u8 = 31;
pub const JOB_C16_RUN: u8 = 32;
pub const JOB_C18_RUN: u8 = 33;
pub const JOB_C18_MASKS: u8 = 34;

// ---------------------------------------------------------------------------------------------
// the shim's control interface (looked up at run time; absent when not preloaded)

#[repr(C)]
#[derive(Clone, Copy)]
pub struct ShimEntry {
    pub op: i32,
    pub pad: i32,
    pub off: i64,
    pub len: i64,
    pub name: [u8; 48],
}

impl ShimEntry {
    pub fn file(&self) -> String {
        let n = self.name.iter().position(|c| *c == 0).unwrap_or(48);
        String::from_utf8_lossy(&self.name[..n]).to_string()
    }
    pub fn is_write(&self) -> bool {
        matches!(self.op, 0 | 1 | 2)
    }
    pub fn is_sync(&self) -> bool {
        matches!(self.op, 3 | 4)
    }
}

#[repr(C)]
struct RLimit {
    cur: u64,
    max: u64,
}
const RLIMIT_FSIZE: i32 = 1;
const SIGXFSZ: i32 = 25;
const RLIM_INFINITY: u64 = u64::MAX;

extern "C" {
    fn dlsym(handle: *mut std::ffi::c_void, symbol: *const std::ffi::c_char) -> *mut std::ffi::c_void;
    fn kill(pid: i32, sig: i32) -> i32;
    fn getpid() -> i32;
    fn getrlimit(resource: i32, rlim: *mut RLimit) -> i32;
    fn setrlimit(resource: i32, rlim: *const RLimit) -> i32;
    fn signal(signum: i32, handler: usize) -> usize;
}

/// the kernel's own mechanism for refused writes: a soft file-size limit (SIGXFSZ ignored, so the
/// write fails with EFBIG after a partial write up to the limit)
pub fn set_fsize_limit(limit: Option<u64>) -> bool {
    unsafe {
        signal(SIGXFSZ, 1); // SIG_IGN
        let mut r = RLimit { cur: 0, max: 0 };
        if getrlimit(RLIMIT_FSIZE, &mut r) != 0 {
            return false;
        }
        r.cur = match limit {
            Some(l) => l.min(r.max),
            None => r.max.min(RLIM_INFINITY),
        };
        setrlimit(RLIMIT_FSIZE, &r) == 0
    }
}

#[derive(Clone, Copy)]
pub struct Shim {
    ctl: extern "C" fn(i32, i64) -> i64,
    get: extern "C" fn(i64, *mut ShimEntry) -> i32,
}

impl Shim {
    pub fn find() -> Option<Shim> {
        unsafe {
            let a = dlsym(std::ptr::null_mut(), b"abyv_ctl\0".as_ptr() as *const _);
            let b = dlsym(std::ptr::null_mut(), b"abyv_log_get\0".as_ptr() as *const _);
            if a.is_null() || b.is_null() {
                return None;
            }
            let s = Shim { ctl: std::mem::transmute(a), get: std::mem::transmute(b) };
            if (s.ctl)(7, 0) != 4711 {
                return None;
            }
            Some(s)
        }
    }
    pub fn disarm(&self) {
        (self.ctl)(0, 0);
    }
    pub fn arm(&self, k: i64, mode: i64) {
        (self.ctl)(2, mode);
        (self.ctl)(1, k);
    }
    pub fn clear_log(&self) {
        (self.ctl)(4, 0);
    }
    pub fn writes_since_arming(&self) -> i64 {
        (self.ctl)(5, 0)
    }
    pub fn refused(&self) -> i64 {
        (self.ctl)(6, 0)
    }
    pub fn log(&self) -> Vec<ShimEntry> {
        let n = (self.ctl)(3, 0);
        let mut v = Vec::with_capacity(n as usize);
        for i in 0..n {
            let mut e = ShimEntry { op: 0, pad: 0, off: 0, len: 0, name: [0; 48] };
            if (self.get)(i, &mut e) == 0 {
                v.push(e);
            }
        }
        v
    }
}

pub fn shim_env() -> Vec<(String, String)> {
    let so = std::env::var("ABYV_SHIM").unwrap_or_else(|_| crate::report::verif_root().join("shim/abyv_shim.so").display().to_string());
    if !Path::new(&so).exists() {
        crate::report::machinery_failure(&format!("shim library {so} not built"));
    }
    vec![("LD_PRELOAD".to_string(), so)]
}

// ---------------------------------------------------------------------------------------------
// C03

/// which maps a durability letter promises to make durable
fn covered(cfg: &BCfg, st_opened: &[bool], l: &Letter) -> Vec<bool> {
    let mut c = vec![false; cfg.maps.len()];
    match l.kind {
        L_DB_SYNC_ALL | L_DB_SYNC_DATA => {
            for (i, o) in st_opened.iter().enumerate() {
                c[i] = *o;
            }
        }
        _ => c[l.map as usize % cfg.maps.len()] = true,
    }
    c
}

fn sync_log_complaint(cfg: &BCfg, shim: &Shim, cov: &[bool]) -> Option<String> {
    let log = shim.log();
    for (mi, m) in cfg.maps.iter().enumerate() {
        if !cov[mi] {
            continue;
        }
        for ext in ["htx", "key", "val"] {
            let f = format!("{}.{ext}", m.name);
            let last_write = log.iter().rposition(|e| e.is_write() && e.file() == f);
            if let Some(w) = last_write {
                let synced = log.iter().skip(w + 1).any(|e| e.is_sync() && e.file() == f);
                if !synced {
                    return Some(format!("no fsync/fdatasync request for {f} after its last write (log entry {w} of {}): the data was handed to the OS but never synced", log.len()));
                }
            }
        }
    }
    None
}

pub struct C03Worker;

fn c03_run(bw: &mut BWorker, payload: &[u8], io: &mut WorkerIo) -> Vec<u8> {
    let mut r = Rd::new(payload);
    let prefix = r.vec();
    let only = r.u64();
    let kill_pos = r.u32() as i32;
    let kill_dir = r.string();
    let shim = match Shim::find() {
        Some(s) => s,
        None => {
            let mut o = BOutcome::default();
            o.failure = Some((vec![], 0, "machinery:no-shim".into(), "the LD_PRELOAD shim is not loaded in the worker".into()));
            return o.enc();
        }
    };
    let cfg = bw.cfg.clone();
    let mut out = BOutcome::default();
    let a = cfg.letters.len() as u64;
    let free = cfg.depth as usize - prefix.len();
    let total = a.pow(free as u32);
    let mut seq = prefix.clone();
    seq.resize(cfg.depth as usize, 0);
    let snap = bw.scratch.fresh("snap");
    let range = if only == u64::MAX { 0..total } else { only..only + 1 };
    for idx in range {
        let mut x = idx;
        for p in (prefix.len()..cfg.depth as usize).rev() {
            seq[p] = (x % a) as u8;
            x /= a;
        }
        io.progress(idx);
        out.sequences += 1;
        shim.clear_log();
        shim.disarm();
        let s = seq.clone();
        let mut counters: BTreeMap<String, i64> = BTreeMap::new();
        let snapdir = snap.clone();
        let mut hook = |cfg: &BCfg, st: &mut BState, pos: usize, l: &Letter, ok: bool| -> Option<String> {
            if l.kind == L_REFUSED_FLUSH {
                // a flush whose first write is refused (whatever it answers); later durability calls
                // that return Ok are crash points like any other
                if st.handle(cfg, 0, 0).is_ok() {
                    shim.arm(1, 0);
                    let _ = st.exec(cfg, &Letter { kind: L_FLUSH, map: 0, handle: H_FIRST, key: 0, val: 0 });
                    shim.disarm();
                    *counters.entry("refused_flush_letters".into()).or_insert(0) += 1;
                }
                return None;
            }
            if !BCfg::is_durability(l) || !ok {
                return None;
            }
            let cov = covered(cfg, &st.opened_once, l);
            *counters.entry("crash_points".into()).or_insert(0) += 1;
            if st.models.iter().any(|m| !m.is_empty()) {
                *counters.entry("crash_points_with_data".into()).or_insert(0) += 1;
            }
            if kill_pos == pos as i32 {
                unsafe {
                    kill(getpid(), 9);
                }
            }
            // the directory as it is on disk at this moment, all handles still alive
            if let Err(e) = copy_dir(&st.dir, &snapdir) {
                return Some(format!("cannot copy the directory: {e}"));
            }
            if cfg.flags & F_STATS_AT_SYNC != 0 {
                // C17 at a sync point: the figures the live handle reports must be those of the files as they are now
                *counters.entry("statistics_compared_at_sync_points".into()).or_insert(0) += 1;
                for (mi, m) in cfg.maps.iter().enumerate() {
                    if !cov[mi] {
                        continue;
                    }
                    let img = match Image::read(&snapdir, &m.name) {
                        Ok(i) => i,
                        Err(e) => return Some(format!("{} returned Ok, but the files of map {} are unreadable: {e}", cfg.label(l), m.name)),
                    };
                    let d = crate::decoder::decode(&img.htx, &img.key, &img.val);
                    if let Ok(h) = st.handle(cfg, mi, 0) {
                        if let Some(e) = h.stats_complaint(&d) {
                            return Some(format!("after {} returned Ok: {e} (files = a copy of the directory taken at that moment)", cfg.label(l)));
                        }
                    }
                }
                return None;
            }
            if let Some(e) = check_files(cfg, &snapdir, &st.models, &cov) {
                return Some(format!("{} returned Ok, but in a copy of the directory taken at that moment: {e}", cfg.label(l)));
            }
            if let Some(e) = check_reopen(cfg, &snapdir, &st.models, &cov, None) {
                return Some(format!("{} returned Ok, but a copy of the directory taken at that moment does not open to the current state: {e}", cfg.label(l)));
            }
            if matches!(l.kind, L_SYNC_ALL | L_SYNC_DATA | L_DB_SYNC_ALL | L_DB_SYNC_DATA) {
                *counters.entry("sync_log_checks".into()).or_insert(0) += 1;
                if let Some(e) = sync_log_complaint(cfg, &shim, &cov) {
                    return Some(format!("{} returned Ok, but {e}", cfg.label(l)));
                }
            }
            None
        };
        let res = if kill_dir.is_empty() {
            bw.run_sequence(&s, &mut out, Some(&mut hook))
        } else {
            // run in the directory the parent chose, so that it can examine what a kill leaves behind
            run_sequence_in(bw, &s, &mut out, Some(&mut hook), Path::new(&kill_dir))
        };
        for (k, v) in counters {
            *out.counters.entry(k).or_insert(0) += v;
        }
        if let Some((pos, msg)) = res {
            let key = c03_key(&cfg, &s, pos, &msg);
            out.failure = Some((s, pos, key, msg));
            break;
        }
    }
    out.enc()
}

fn c03_key(cfg: &BCfg, seq: &[u8], pos: usize, msg: &str) -> String {
    let l = seq.get(pos).map(|li| cfg.letters[*li as usize]);
    let call = match l.map(|l| l.kind) {
        Some(L_FLUSH) => "flush",
        Some(L_SYNC_ALL) => "sync_all",
        Some(L_SYNC_DATA) => "sync_data",
        Some(L_DB_SYNC_ALL) => "db.sync_all",
        Some(L_DB_SYNC_DATA) => "db.sync_data",
        _ => "call",
    };
    let what = if msg.contains("fsync") {
        "no-os-sync"
    } else if msg.contains("copy of the directory") {
        "not-durable"
    } else if msg.contains("panicked") {
        "panic"
    } else {
        "wrong"
    };
    format!("{call}:{what}")
}

/// like BWorker::run_sequence but in a directory chosen by the caller (not cleaned up afterwards)
fn run_sequence_in(bw: &mut BWorker, seq: &[u8], out: &mut BOutcome, hook: Option<Hook>, dir: &Path) -> Option<(usize, String)> {
    let cfg = bw.cfg.clone();
    let _ = std::fs::remove_dir_all(dir);
    let _ = std::fs::create_dir_all(dir);
    let mut st = BState::new(&cfg, dir);
    let mut hook = hook;
    for (pos, li) in seq.iter().enumerate() {
        let l = cfg.letters[*li as usize];
        out.calls += 1;
        let r = st.exec(&cfg, &l);
        if let Some(h) = hook.as_mut() {
            if let Some(e) = h(&cfg, &mut st, pos, &l, r.is_none()) {
                return Some((pos, e));
            }
        }
        if let Some(e) = r {
            return Some((pos, e));
        }
    }
    st.drop_all();
    None
}

/// pure interpretation of the update letters: the model after seq[..=pos]
pub fn models_after(cfg: &BCfg, seq: &[u8], pos: usize) -> (Vec<BTreeMap<Vec<u8>, Vec<u8>>>, Vec<bool>) {
    let mut models = vec![BTreeMap::new(); cfg.maps.len()];
    let mut opened = vec![false; cfg.maps.len()];
    for li in seq.iter().take(pos + 1) {
        let l = cfg.letters[*li as usize];
        let mi = l.map as usize % cfg.maps.len();
        match l.kind {
            L_PUT => {
                opened[mi] = true;
                models[mi].insert(cfg.maps[mi].keys[l.key as usize].clone(), cfg.value(l.map, l.key, l.val));
            }
            L_DEL => {
                opened[mi] = true;
                models[mi].remove(&cfg.maps[mi].keys[l.key as usize]);
            }
            L_BULK_PUT => {
                opened[mi] = true;
                let nv = cfg.val_lens.len() as u8;
                for (i, k) in cfg.maps[mi].keys.iter().enumerate() {
                    models[mi].insert(k.clone(), cfg.value(l.map, i as u8, (l.val + i as u8) % nv));
                }
            }
            L_DB_SYNC_ALL | L_DB_SYNC_DATA | L_REOPEN | L_DROP_DB => {}
            _ => opened[mi] = true,
        }
    }
    (models, opened)
}

fn c03_examine(bw: &mut BWorker, payload: &[u8]) -> Vec<u8> {
    let mut r = Rd::new(payload);
    let seq = r.vec();
    let pos = r.u32() as usize;
    let dir = PathBuf::from(r.string());
    let cfg = bw.cfg.clone();
    let (models, opened) = models_after(&cfg, &seq, pos);
    let l = cfg.letters[seq[pos] as usize];
    let cov = covered(&cfg, &opened, &l);
    let mut b = Buf::new();
    let complaint = check_files(&cfg, &dir, &models, &cov).or_else(|| check_reopen(&cfg, &dir, &models, &cov, None));
    match complaint {
        Some(e) => {
            b.u8(1).str(&e);
        }
        None => {
            b.u8(0).str("");
        }
    }
    b.0
}

pub fn c03_letters() -> Vec<Letter> {
    let mut v = vec![
        Letter { kind: L_PUT, map: 0, handle: H_FIRST, key: 0, val: 0 },
        Letter { kind: L_PUT, map: 0, handle: H_FIRST, key: 0, val: 1 },
        Letter { kind: L_PUT, map: 0, handle: H_FIRST, key: 1, val: 0 },
        Letter { kind: L_DEL, map: 0, handle: H_FIRST, key: 0, val: 0 },
        Letter { kind: L_PUT, map: 1, handle: H_FIRST, key: 0, val: 0 },
        Letter { kind: L_PUT, map: 2, handle: H_FIRST, key: 0, val: 0 },
        Letter { kind: L_PUT, map: 3, handle: H_FIRST, key: 0, val: 0 },
        Letter { kind: L_PUT, map: 4, handle: H_FIRST, key: 0, val: 0 },
        Letter { kind: L_PUT, map: 5, handle: H_FIRST, key: 0, val: 0 },
        // updates through a handle from a repeated *_with_params lookup: the database must still know the map
        Letter { kind: L_PUT, map: 1, handle: H_PARAMS, key: 0, val: 0 },
        Letter { kind: L_PUT, map: 3, handle: H_PARAMS, key: 0, val: 0 },
    ];
    for k in [L_FLUSH, L_SYNC_DATA, L_SYNC_ALL] {
        v.push(Letter { kind: k, map: 0, handle: H_FIRST, key: 0, val: 0 });
    }
    v.push(Letter { kind: L_FLUSH, map: 0, handle: H_CLONE, key: 0, val: 0 });
    v.push(Letter { kind: L_SYNC_ALL, map: 0, handle: H_CLONE, key: 0, val: 0 });
    v.push(Letter { kind: L_DB_SYNC_DATA, map: 0, handle: 0, key: 0, val: 0 });
    v.push(Letter { kind: L_DB_SYNC_ALL, map: 0, handle: 0, key: 0, val: 0 });
    // a read-only call between the updates and the durability call must not make the latter a no-op
    v.push(Letter { kind: L_FILL, map: 0, handle: H_FIRST, key: 0, val: 0 });
    v.push(Letter { kind: L_GET, map: 0, handle: H_FIRST, key: 0, val: 0 });
    // a flush that the operating system refuses: the next durability call that returns Ok must still be durable
    v.push(Letter { kind: L_REFUSED_FLUSH, map: 0, handle: H_FIRST, key: 0, val: 0 });
    v
}

pub fn c03(tier: &str, seed: u64) -> i32 {
    let mut ctx = Ctx::new("C03", tier, seed, "fault_enumeration");
    let thorough = ctx.thorough();
    ctx.pool = Pool::new(ctx.pool.size(), shim_env(), vec![]);
    let mut m0 = std_map(KtId::Bytes, 64, 2, 9, seed, "m.a");
    m0.params.val = BufP::Auto;
    // a two-bucket table (the table file is shorter than its 8-bucket form; the stored bucket count matters at the next open)
    let m5 = std_map(KtId::Bytes, 2, 1, 7, seed, "m.b");
    // one more map of every other key type: a database-level sync must reach every open map of every type
    let m1 = std_map(KtId::U64, 8, 1, 8, seed, "other-u64");
    let m2 = std_map(KtId::Str, 8, 1, 6, seed, "other-string");
    let m3 = std_map(KtId::I64, 8, 1, 8, seed, "other-i64");
    let m4 = std_map(KtId::Vu64, 8, 1, 8, seed, "other-vu64");
    let cfg = BCfg {
        prop: "C03".into(),
        maps: vec![m0, m1, m2, m3, m4, m5],
        val_lens: vec![6, 300_000],
        letters: c03_letters(),
        depth: if thorough { 5 } else { 4 },
        flags: 0,
        seed,
        reopen: vec![],
        other_params: Params::defaults(),
    };
    // all sequences, a snapshot at every Ok durability call
    let t0 = ctx.run.elapsed();
    let st = explore_with(&cfg, &mut ctx, JOB_C03_RUN, if thorough { 420.0 } else { 30.0 });
    let t = ctx.run.elapsed() - t0;
    eprintln!("[C03] snapshots: sequences={} calls={} complete={} {:.1}s", st.sequences, st.calls, st.complete, t);
    ctx.runs.push(J::obj(vec![
        ("label", J::s("every sequence over the letters; at every durability call that returns Ok the directory is copied with all handles alive, decoded and opened")),
        ("letters", J::Arr(cfg.letters.iter().map(|l| J::s(&cfg.label(l))).collect())),
        ("depth", J::Int(cfg.depth as i64)),
        ("sequences", J::Int(st.sequences as i64)),
        ("calls", J::Int(st.calls as i64)),
        ("complete", J::Bool(st.complete)),
        ("wall_s", J::Num(t)),
    ]));
    if ctx.run.violations.is_empty() {
        // deeper histories over a smaller alphabet (one map): durability calls separated by several updates
        let deep = BCfg {
            letters: vec![
                Letter { kind: L_PUT, map: 0, handle: H_FIRST, key: 0, val: 0 },
                Letter { kind: L_PUT, map: 0, handle: H_FIRST, key: 1, val: 0 },
                Letter { kind: L_DEL, map: 0, handle: H_FIRST, key: 0, val: 0 },
                Letter { kind: L_DEL, map: 0, handle: H_FIRST, key: 1, val: 0 },
                Letter { kind: L_FLUSH, map: 0, handle: H_FIRST, key: 0, val: 0 },
                Letter { kind: L_SYNC_ALL, map: 0, handle: H_FIRST, key: 0, val: 0 },
                Letter { kind: L_DB_SYNC_DATA, map: 0, handle: 0, key: 0, val: 0 },
            ],
            depth: if thorough { 7 } else { 6 },
            maps: vec![cfg.maps[0].clone()],
            ..cfg.clone()
        };
        let t0 = ctx.run.elapsed();
        let st = explore_with(&deep, &mut ctx, JOB_C03_RUN, if thorough { 300.0 } else { 25.0 });
        eprintln!("[C03] deep snapshots: sequences={} calls={} complete={} {:.1}s", st.sequences, st.calls, st.complete, ctx.run.elapsed() - t0);
        ctx.runs.push(J::obj(vec![
            ("label", J::s("deeper histories over 7 letters on one map (put/delete on 2 keys, flush, sync_all, db.sync_data): every Ok durability call is a crash point")),
            ("depth", J::Int(deep.depth as i64)),
            ("sequences", J::Int(st.sequences as i64)),
            ("complete", J::Bool(st.complete)),
        ]));
    }
    if ctx.run.violations.is_empty() {
        // a freed slot of every value slot class (and one of every second key slot class) at a crash point:
        // the header words that hold the free-list heads must be where the next open expects them
        let mut vlens: Vec<u32> = crate::decoder::CLASSES.iter().map(|c| c.saturating_sub(6)).collect();
        vlens.push(1500);
        let mut letters = Vec::new();
        for vi in 0..vlens.len() as u8 {
            letters.push(Letter { kind: L_PUT, map: 0, handle: H_FIRST, key: 0, val: vi });
        }
        letters.push(Letter { kind: L_DEL, map: 0, handle: H_FIRST, key: 0, val: 0 });
        letters.push(Letter { kind: L_PUT, map: 0, handle: H_FIRST, key: 1, val: 0 });
        letters.push(Letter { kind: L_FLUSH, map: 0, handle: H_FIRST, key: 0, val: 0 });
        letters.push(Letter { kind: L_SYNC_DATA, map: 0, handle: H_FIRST, key: 0, val: 0 });
        let classes = BCfg { letters, depth: 3, maps: vec![std_map(KtId::Bytes, 8, 2, 9, seed, "m")], val_lens: vlens, ..cfg.clone() };
        let t0 = ctx.run.elapsed();
        let st = explore_with(&classes, &mut ctx, JOB_C03_RUN, if thorough { 120.0 } else { 10.0 });
        eprintln!("[C03] slot classes at crash points: sequences={} calls={} complete={} {:.1}s", st.sequences, st.calls, st.complete, ctx.run.elapsed() - t0);
        ctx.runs.push(J::obj(vec![
            ("label", J::s("every sequence of depth 3 over put k0 with a value of each slot class (17 lengths) / delete k0 / put k1 / flush / sync_data: freed slots of every class are on the free lists at a crash point")),
            ("sequences", J::Int(st.sequences as i64)),
            ("complete", J::Bool(st.complete)),
        ]));
    }
    for pick in [[0u8, 8, 1, 10], [4, 0, 14, 3], [7, 2, 13, 9]] {
        ctx.run.sample(J::Arr(pick.iter().map(|li| J::s(&cfg.label(&cfg.letters[*li as usize]))).collect()));
    }
    // the writer is killed at the crash point and another process examines what is left
    if ctx.run.violations.is_empty() {
        let kdepth: u8 = 3;
        let mut kcfg = cfg.clone();
        kcfg.depth = kdepth;
        c03_kill_runs(&mut ctx, &kcfg);
    }
    let evals = ctx.run.get("crash_points") + ctx.run.get("kill_runs");
    let nt = ctx.run.get("crash_points_with_data") + ctx.run.get("kill_runs_with_data");
    ctx.run.set("evaluations", J::Int(evals));
    ctx.run.set("distinct_nontrivial", J::Int(nt));
    ctx.run.set("rule", J::s("every call sequence up to the depth over {put small/300000-byte values on 2 keys, delete, put on four further maps (one of every other key type) in the same database, flush/sync_data/sync_all through the handle and its clone, db.sync_data/db.sync_all}; every durability call that returns Ok is a crash point: (1) the directory is copied while all handles are alive, the copy must decode (independent decoder) and open (real code) to exactly the model of the maps the call covers; (2) for sync_*: the system-call log of the LD_PRELOAD shim must show an fsync/fdatasync of each covered file after its last write; (3) the writer process is SIGKILLed at the crash point and a different process opens what is left. non-trivial = crash points at which at least one covered map holds data"));
    ctx.run.set("runs", J::Arr(ctx.runs.clone()));
    ctx.run.assumptions.push("process death only: no power loss / block reordering (the property speaks of the directory at that moment and of a killed process)".into());
    ctx.run.assumptions.push("write/pwrite/ftruncate/fsync/fdatasync reach the kernel through libc's PLT (checked: the shim must be present and an unfaulted flush must log a write)".into());
    if ctx.run.get("crash_points") == 0 && ctx.run.violations.is_empty() {
        crate::report::machinery_failure("C03 evaluated no crash point");
    }
    ctx.run.exhaustive = ctx.run.exhaustive && ctx.all_closed;
    let run = ctx.run;
    drop(ctx.pool);
    run.finish()
}

/// the sync-point half of C05's quantifier: one map of every key type in one database, every sequence
/// of the depth over {put on each map, delete, flush, db.sync_all, db.sync_data}; at every durability call
/// that returns Ok a copy of the directory must decode (independent decoder) to the model of the covered maps
pub fn sync_point_pass(ctx: &mut Ctx, prop: &str, depth: u8, secs: f64) {
    let seed = ctx.seed;
    let n = ctx.pool.size();
    let old = std::mem::replace(&mut ctx.pool, Pool::new(n, shim_env(), vec![]));
    drop(old);
    let maps = vec![
        // names that differ only after the last dot: each map has its own three files
        std_map(KtId::Bytes, 8, 2, 9, seed, "s.bytes"),
        std_map(KtId::Str, 8, 1, 6, seed, "s.string"),
        std_map(KtId::U64, 8, 1, 8, seed, "s.u64"),
        std_map(KtId::I64, 8, 1, 8, seed, "s.i64"),
        std_map(KtId::Vu64, 8, 1, 8, seed, "s.vu64"),
    ];
    let mut letters = Vec::new();
    for mi in 0..5u8 {
        letters.push(Letter { kind: L_PUT, map: mi, handle: H_FIRST, key: 0, val: 0 });
    }
    letters.push(Letter { kind: L_PUT, map: 0, handle: H_FIRST, key: 1, val: 1 });
    letters.push(Letter { kind: L_DEL, map: 0, handle: H_FIRST, key: 0, val: 0 });
    letters.push(Letter { kind: L_FLUSH, map: 0, handle: H_FIRST, key: 0, val: 0 });
    letters.push(Letter { kind: L_DB_SYNC_ALL, map: 0, handle: 0, key: 0, val: 0 });
    letters.push(Letter { kind: L_DB_SYNC_DATA, map: 0, handle: 0, key: 0, val: 0 });
    let cfg = BCfg { prop: prop.to_string(), maps, val_lens: vec![6, 200], letters, depth, flags: 0, seed, reopen: vec![], other_params: Params::defaults() };
    let t0 = ctx.run.elapsed();
    let st = explore_with(&cfg, ctx, JOB_C03_RUN, secs);
    eprintln!("[{prop}] sync points: sequences={} calls={} complete={} {:.1}s", st.sequences, st.calls, st.complete, ctx.run.elapsed() - t0);
    ctx.runs.push(J::obj(vec![
        ("label", J::s("sync points: one map of every key type in one database; every sequence over put on each map / delete / flush / db.sync_all / db.sync_data; at every durability call that returns Ok a copy of the directory is decoded")),
        ("depth", J::Int(depth as i64)),
        ("sequences", J::Int(st.sequences as i64)),
        ("calls", J::Int(st.calls as i64)),
        ("complete", J::Bool(st.complete)),
    ]));
    ctx.states += st.sequences;
    ctx.transitions += st.calls;
    let n = ctx.pool.size();
    let old = std::mem::replace(&mut ctx.pool, Pool::new(n, vec![], vec![]));
    drop(old);
}

/// C17 at sync points: every sequence of the depth over put/delete on two keys and the three map-level
/// durability calls; at every durability call that returns Ok the statistics of the live handle are compared
/// with the independently decoded copy of the directory taken at that moment
pub fn stats_at_sync_pass(ctx: &mut Ctx, depth: u8, secs: f64) {
    let seed = ctx.seed;
    let n = ctx.pool.size();
    let old = std::mem::replace(&mut ctx.pool, Pool::new(n, shim_env(), vec![]));
    drop(old);
    let letters = vec![
        Letter { kind: L_PUT, map: 0, handle: H_FIRST, key: 0, val: 0 },
        Letter { kind: L_PUT, map: 0, handle: H_FIRST, key: 0, val: 1 },
        Letter { kind: L_PUT, map: 0, handle: H_FIRST, key: 1, val: 0 },
        Letter { kind: L_DEL, map: 0, handle: H_FIRST, key: 0, val: 0 },
        Letter { kind: L_FLUSH, map: 0, handle: H_FIRST, key: 0, val: 0 },
        Letter { kind: L_SYNC_DATA, map: 0, handle: H_FIRST, key: 0, val: 0 },
        Letter { kind: L_SYNC_ALL, map: 0, handle: H_FIRST, key: 0, val: 0 },
    ];
    let cfg = BCfg { prop: "C17".into(), maps: vec![std_map(KtId::Bytes, 8, 2, 9, seed, "m")], val_lens: vec![6, 300], letters, depth, flags: F_STATS_AT_SYNC, seed, reopen: vec![], other_params: Params::defaults() };
    let t0 = ctx.run.elapsed();
    let st = explore_with(&cfg, ctx, JOB_C03_RUN, secs);
    eprintln!("[C17] statistics at sync points: sequences={} calls={} complete={} {:.1}s", st.sequences, st.calls, st.complete, ctx.run.elapsed() - t0);
    ctx.runs.push(J::obj(vec![
        ("label", J::s("statistics at sync points: every sequence over put/delete on 2 keys and flush/sync_data/sync_all; at every durability call that returns Ok the figures of the live handle = the decoded copy of the directory")),
        ("depth", J::Int(depth as i64)),
        ("sequences", J::Int(st.sequences as i64)),
        ("calls", J::Int(st.calls as i64)),
        ("complete", J::Bool(st.complete)),
    ]));
    ctx.states += st.sequences;
    ctx.transitions += st.calls;
    let old = std::mem::replace(&mut ctx.pool, Pool::new(n, vec![], vec![]));
    drop(old);
}

/// engine B's exploration with another job kind (same payload prefix + extras)
fn explore_with(cfg: &BCfg, ctx: &mut Ctx, job_kind: u8, max_secs: f64) -> BStats {
    let pool = &mut ctx.pool;
    let run = &mut ctx.run;
    pool.reinit(vec![{
        let mut b = Buf::new();
        b.u8(JOB_B_CONFIG).bytes(&cfg.enc());
        b.0
    }]);
    let a = cfg.letters.len();
    let split = if cfg.depth >= 3 { 2 } else { 1 };
    let mut prefixes: Vec<Vec<u8>> = vec![vec![]];
    for _ in 0..split {
        let mut next = Vec::new();
        for p in &prefixes {
            for l in 0..a {
                let mut q = p.clone();
                q.push(l as u8);
                next.push(q);
            }
        }
        prefixes = next;
    }
    let mk = |p: &[u8], only: u64| -> Vec<u8> {
        let mut b = Buf::new();
        b.u8(job_kind).bytes(p).u64(only).u32(u32::MAX).str("");
        b.0
    };
    let t0 = run.elapsed();
    let mut st = BStats { sequences: 0, calls: 0, complete: true };
    for chunk in prefixes.chunks(pool.size() * 2) {
        if run.elapsed() - t0 > max_secs {
            st.complete = false;
            break;
        }
        let jobs: Vec<Vec<u8>> = chunk.iter().map(|p| mk(p, u64::MAX)).collect();
        let results = pool.map(&jobs, |i| i);
        for (i, res) in results.into_iter().enumerate() {
            match res {
                JobResult::Done(b) => {
                    let o = BOutcome::dec(&b);
                    st.sequences += o.sequences;
                    st.calls += o.calls;
                    for (k, v) in &o.counters {
                        run.add(k, *v);
                    }
                    if let Some((seq, pos, key, msg)) = o.failure {
                        if key.starts_with("machinery:") {
                            crate::report::machinery_failure(&msg);
                        }
                        let mut case = Buf::new();
                        case.bytes(&seq);
                        let mut story = seq_story(cfg, &seq, pos);
                        story.push(format!("observed: {msg}"));
                        run.violation(Violation { prop: cfg.prop.clone(), key, message: msg, replay: Replay { engine: "C03".into(), config: cfg.enc(), case: case.0, story } });
                    }
                }
                JobResult::Crashed { progress, how } => {
                    let idx = progress.unwrap_or(0);
                    let kind = if how.contains("hang") { "hang" } else { "abort" };
                    let key = format!("{kind}:sequence");
                    if !run.violations.iter().any(|v| v.key == key) {
                        match pool.run_isolated(&mk(&chunk[i], idx)) {
                            JobResult::Crashed { how: how2, .. } => {
                                let mut seq = chunk[i].clone();
                                seq.resize(cfg.depth as usize, 0);
                                let mut x = idx;
                                for p in (chunk[i].len()..cfg.depth as usize).rev() {
                                    seq[p] = (x % a as u64) as u8;
                                    x /= a as u64;
                                }
                                let msg = format!("the sequence does not return normally: {how}; confirmed alone in a fresh process: {how2}");
                                let mut case = Buf::new();
                                case.bytes(&seq);
                                let mut story = seq_story(cfg, &seq, seq.len());
                                story.push(format!("observed: {msg}"));
                                run.violation(Violation { prop: cfg.prop.clone(), key, message: msg, replay: Replay { engine: "C03".into(), config: cfg.enc(), case: case.0, story } });
                            }
                            JobResult::Done(_) => crate::report::machinery_failure(&format!("a worker crash did not reproduce in isolation ({how}); no verdict")),
                        }
                    }
                    st.complete = false;
                }
            }
        }
        if !run.violations.is_empty() {
            st.complete = false;
            break;
        }
    }
    if !st.complete {
        ctx.all_closed = false;
    }
    st
}

fn c03_kill_runs(ctx: &mut Ctx, cfg: &BCfg) {
    ctx.pool.reinit(vec![{
        let mut b = Buf::new();
        b.u8(JOB_B_CONFIG).bytes(&cfg.enc());
        b.0
    }]);
    let a = cfg.letters.len() as u64;
    let d = cfg.depth as u32;
    let total = a.pow(d);
    let base = PathBuf::from(format!("/dev/shm/abyv.{}.kill", std::process::id()));
    let _ = std::fs::remove_dir_all(&base);
    let _ = std::fs::create_dir_all(&base);
    // all (sequence, position of a durability call) pairs
    let mut pairs: Vec<(Vec<u8>, usize)> = Vec::new();
    for idx in 0..total {
        let mut seq = vec![0u8; d as usize];
        let mut x = idx;
        for p in (0..d as usize).rev() {
            seq[p] = (x % a) as u8;
            x /= a;
        }
        for (pos, li) in seq.iter().enumerate() {
            if BCfg::is_durability(&cfg.letters[*li as usize]) {
                // only the last durability call of a sequence: earlier ones are the last one of a prefix
                if pos == d as usize - 1 {
                    pairs.push((seq.clone(), pos));
                }
            }
        }
    }
    // shorter sequences: a durability call as the very first call and after one update (prefixes)
    let t0 = ctx.run.elapsed();
    let n = ctx.pool.size();
    let mut done = 0usize;
    for chunk in pairs.chunks(n * 4) {
        if ctx.run.elapsed() - t0 > if ctx.thorough() { 240.0 } else { 15.0 } {
            ctx.run.exhaustive = false;
            break;
        }
        // each kill run needs its own process: run_isolated in parallel threads
        let spec = ctx.pool.spec();
        let results: Vec<(usize, JobResult, PathBuf)> = std::thread::scope(|s| {
            let mut hs = Vec::new();
            for (ci, (seq, pos)) in chunk.iter().enumerate() {
                let spec = &spec;
                let dir = base.join(format!("k{}", done + ci));
                hs.push(s.spawn(move || {
                    let mut b = Buf::new();
                    b.u8(JOB_C03_RUN).bytes(seq).u64(0).u32(*pos as u32).str(&dir.display().to_string());
                    // the prefix is the whole sequence: exactly one completion (index 0)
                    (ci, crate::pool::run_isolated_spec(spec, &b.0), dir)
                }));
            }
            hs.into_iter().map(|h| h.join().unwrap()).collect()
        });
        let mut examine_jobs: Vec<Vec<u8>> = Vec::new();
        let mut examine_idx: Vec<usize> = Vec::new();
        for (ci, res, dir) in &results {
            let (seq, pos) = &chunk[*ci];
            match res {
                JobResult::Crashed { how, .. } if how.contains("signal: 9") || how.contains("SIGKILL") => {
                    let mut b = Buf::new();
                    b.u8(JOB_C03_EXAMINE).bytes(seq).u32(*pos as u32).str(&dir.display().to_string());
                    examine_jobs.push(b.0);
                    examine_idx.push(*ci);
                }
                JobResult::Crashed { how, .. } => {
                    ctx.run.notes.push(format!("kill run ended differently: {how}"));
                    ctx.run.add("kill_runs_unexpected_end", 1);
                }
                JobResult::Done(b) => {
                    // the durability call did not return Ok (or an earlier call failed): reported by the snapshot pass
                    let o = BOutcome::dec(b);
                    if o.failure.is_some() {
                        ctx.run.add("kill_runs_sequence_failed_before_kill", 1);
                    } else {
                        ctx.run.add("kill_runs_not_killed", 1);
                    }
                }
            }
        }
        let ex = ctx.pool.map(&examine_jobs, |i| i);
        for (j, res) in ex.into_iter().enumerate() {
            let (seq, pos) = &chunk[examine_idx[j]];
            ctx.run.add("kill_runs", 1);
            let (models, _) = models_after(cfg, seq, *pos);
            if models.iter().any(|m| !m.is_empty()) {
                ctx.run.add("kill_runs_with_data", 1);
            }
            match res {
                JobResult::Done(b) => {
                    let mut r = Rd::new(&b);
                    if r.u8() == 1 {
                        let e = r.string();
                        let l = cfg.letters[seq[*pos] as usize];
                        let msg = format!("{} returned Ok and the process was killed right then; the directory it left behind: {e}", cfg.label(&l));
                        let mut case = Buf::new();
                        case.bytes(seq);
                        let mut story = seq_story(cfg, seq, *pos);
                        story.push("then: SIGKILL; another process opens the directory".into());
                        story.push(format!("observed: {msg}"));
                        let key = format!("{}:killed", c03_key(cfg, seq, *pos, "copy of the directory"));
                        ctx.run.violation(Violation { prop: cfg.prop.clone(), key, message: msg, replay: Replay { engine: "C03".into(), config: cfg.enc(), case: case.0, story } });
                    }
                }
                JobResult::Crashed { how, .. } => {
                    let l = cfg.letters[seq[*pos] as usize];
                    let msg = format!("{} returned Ok and the process was killed right then; opening the directory it left behind does not return normally: {how}", cfg.label(&l));
                    let mut case = Buf::new();
                    case.bytes(seq);
                    ctx.run.violation(Violation { prop: cfg.prop.clone(), key: "killed:open-crashes".into(), message: msg.clone(), replay: Replay { engine: "C03".into(), config: cfg.enc(), case: case.0, story: vec![msg] } });
                }
            }
        }
        for (_, _, dir) in &results {
            let _ = std::fs::remove_dir_all(dir);
        }
        done += chunk.len();
        if !ctx.run.violations.is_empty() {
            break;
        }
    }
    let _ = std::fs::remove_dir_all(&base);
    // worker scratch directories of killed processes
    if let Ok(rd) = std::fs::read_dir("/dev/shm") {
        for e in rd.flatten() {
            let name = e.file_name().to_string_lossy().to_string();
            if name.starts_with("abyv.") && name.ends_with(".b") {
                let pid: i32 = name.split('.').nth(1).and_then(|p| p.parse().ok()).unwrap_or(0);
                if pid > 0 && !Path::new(&format!("/proc/{pid}")).exists() {
                    let _ = std::fs::remove_dir_all(e.path());
                }
            }
        }
    }
    eprintln!("[C03] kill runs: {} pairs, {} examined", pairs.len(), ctx.run.get("kill_runs"));
    ctx.runs.push(J::obj(vec![
        ("label", J::s("SIGKILL at the crash point: for every sequence of this depth ending in a durability call the writer process is killed when the call has returned Ok, and a different process decodes and opens the directory left behind")),
        ("depth", J::Int(cfg.depth as i64)),
        ("pairs", J::Int(pairs.len() as i64)),
        ("examined", J::Int(ctx.run.get("kill_runs"))),
    ]));
}

pub fn replay_c03(config: &[u8], case: &[u8]) -> i32 {
    let cfg = BCfg::dec(config);
    let mut r = Rd::new(case);
    let seq = r.vec();
    println!("replay C03 (needs the shim: run through ./check --replay)");
    for l in seq_story(&cfg, &seq, seq.len()) {
        println!("  {l}");
    }
    let mut bw = BWorker::new({
        let mut c = cfg.clone();
        c.depth = seq.len() as u8;
        c
    });
    let mut b = Buf::new();
    b.bytes(&seq).u64(0).u32(u32::MAX).str("");
    let mut io = WorkerIo::sink();
    let o = BOutcome::dec(&c03_run(&mut bw, &b.0, &mut io));
    match o.failure {
        Some((_, pos, key, msg)) => {
            println!("REPLAY VIOLATION at call {} [{key}]: {msg}", pos + 1);
            1
        }
        None => {
            println!("REPLAY: no violation reproduced");
            0
        }
    }
}

// ---------------------------------------------------------------------------------------------
// C16: refused writes inside a durability call

fn c16_run(bw: &mut BWorker, payload: &[u8], io: &mut WorkerIo) -> Vec<u8> {
    let mut r = Rd::new(payload);
    let seq = r.vec(); // updates, then exactly one durability letter
    let pairs = r.u8() == 1;
    let only_k = r.u64(); // u64::MAX: all k; else just this k (and all second deviations)
    let only_mode = r.u8();
    let mut out = BOutcome::default();
    let shim = match Shim::find() {
        Some(s) => s,
        None => {
            out.failure = Some((vec![], 0, "machinery:no-shim".into(), "the LD_PRELOAD shim is not loaded in the worker".into()));
            return out.enc();
        }
    };
    let cfg = bw.cfg.clone();
    let dpos = seq.len() - 1;
    let dl = cfg.letters[seq[dpos] as usize];
    let dname = cfg.label(&dl);
    // 0 deviations: count the writes of the durability call
    let count_writes = |bw: &mut BWorker, out: &mut BOutcome| -> Result<(i64, Vec<u64>), String> {
        let dir = bw.scratch.fresh("c16");
        let mut st = BState::new(&cfg, &dir);
        for li in &seq[..dpos] {
            if let Some(e) = st.exec(&cfg, &cfg.letters[*li as usize]) {
                return Err(format!("without any fault: {e}"));
            }
            out.calls += 1;
        }
        // the map the call is made on exists before any fault is armed: the property is about refusals
        // during flush/sync, not during the creation of a map
        if !matches!(dl.kind, L_DB_SYNC_ALL | L_DB_SYNC_DATA) {
            if let Err(e) = st.handle(&cfg, dl.map as usize % cfg.maps.len(), dl.handle) {
                return Err(format!("without any fault: {e}"));
            }
        }
        shim.clear_log();
        shim.arm(i64::MAX / 2, 0);
        let r = st.exec(&cfg, &dl);
        let w = shim.writes_since_arming();
        shim.disarm();
        if let Some(e) = r {
            return Err(format!("without any fault: {e}"));
        }
        // every distinct file-size threshold at which some write of the call no longer fits
        let mut th: Vec<u64> = Vec::new();
        for e in shim.log().iter().filter(|e| e.op == 0 || e.op == 1) {
            if e.len > 0 {
                th.push((e.off + e.len - 1) as u64);
                th.push(e.off as u64);
            }
        }
        th.sort();
        th.dedup();
        // 0 deviations: the call returned Ok without any refusal, so everything must be durable now
        // (a call that writes nothing while updates are pending could never report a refusal either)
        let snap0 = bw.scratch.fresh("c16snap0");
        if let Err(e) = copy_dir(&dir, &snap0) {
            return Err(format!("machinery: copy: {e}"));
        }
        let cov = covered(&cfg, &st.opened_once, &dl);
        if let Some(e) = check_files(&cfg, &snap0, &st.models, &cov).or_else(|| check_reopen(&cfg, &snap0, &st.models, &cov, None)) {
            st.drop_all();
            return Err(format!("NOT-DURABLE {dname} returned Ok with no write refused ({w} write calls), but a copy of the directory: {e}"));
        }
        st.drop_all();
        Ok((w, th))
    };
    let (w, thresholds) = match count_writes(bw, &mut out) {
        Ok(w) => w,
        Err(e) => {
            let key = if e.starts_with("NOT-DURABLE") { format!("c16:{}:ok-but-not-durable", kind_name(dl.kind)) } else { "c16:baseline".to_string() };
            out.failure = Some((seq.clone(), dpos, key, e));
            return out.enc();
        }
    };
    *out.counters.entry("histories".into()).or_insert(0) += 1;
    *out.counters.entry("writes_in_unfaulted_durability_calls".into()).or_insert(0) += w;
    if w > 0 {
        *out.counters.entry("histories_whose_durability_call_writes".into()).or_insert(0) += 1;
    }
    let snap = bw.scratch.fresh("c16snap");
    let run_one = |bw: &mut BWorker, out: &mut BOutcome, k1: i64, mode: i64, k2: i64| -> Result<bool, (String, String)> {
        struct Lift;
        impl Drop for Lift {
            fn drop(&mut self) {
                set_fsize_limit(None);
            }
        }
        let _lift_at_exit = Lift;
        // returns Ok(true) if the second deviation (k2) actually refused a write
        let dir = bw.scratch.fresh("c16");
        let mut st = BState::new(&cfg, &dir);
        for li in &seq[..dpos] {
            if let Some(e) = st.exec(&cfg, &cfg.letters[*li as usize]) {
                return Err(("c16:baseline".into(), e));
            }
        }
        out.sequences += 1;
        let what = format!("write #{k1} of {dname} refused ({})", match mode { 0 => "ENOSPC, and every later write", 1 => "short write, then ENOSPC", _ => "file-size limit at that write's offset: every write ending beyond it is refused" });
        if !matches!(dl.kind, L_DB_SYNC_ALL | L_DB_SYNC_DATA) {
            if let Err(e) = st.handle(&cfg, dl.map as usize % cfg.maps.len(), dl.handle) {
                return Err(("c16:baseline".into(), e));
            }
        }
        let what = if mode == 3 { format!("{dname} under a real file-size limit of {k1} bytes (setrlimit RLIMIT_FSIZE)") } else { what };
        let r;
        let refused;
        if mode == 3 {
            if !set_fsize_limit(Some(k1 as u64)) {
                return Err(("machinery:setrlimit".into(), "setrlimit failed".into()));
            }
            r = st.exec(&cfg, &dl);
            refused = 1; // some write of the call ends beyond the limit by construction
        } else {
            shim.arm(k1, mode);
            r = st.exec(&cfg, &dl);
            refused = shim.refused();
        }
        if refused == 0 {
            shim.disarm();
            return Err(("machinery:not-refused".into(), format!("{what}: the injector never fired (the call issued fewer writes than in the unfaulted run)")));
        }
        match &r {
            None => {
                shim.disarm();
                return Err((format!("c16:{}:error-not-reported", kind_name(dl.kind)), format!("{what}, but the call returned Ok")));
            }
            Some(e) if e.contains("panicked") => {
                shim.disarm();
                return Err((format!("c16:{}:panic", kind_name(dl.kind)), format!("{what}: {e}")));
            }
            Some(_) => {}
        }
        // while the condition persists: a read answers the model's value or an error, never a wrong Ok
        for (mi, m) in cfg.maps.iter().enumerate() {
            if !st.opened_once[mi] {
                continue;
            }
            for k in &m.keys {
                let exp = st.models[mi].get(k).cloned();
                let hd = match st.handle(&cfg, mi, 0) {
                    Ok(h) => h,
                    Err(_) => continue,
                };
                match guard(|| hd.get(k)) {
                    Out::Ok(v) if v == exp => {}
                    Out::Ok(v) => {
                        shim.disarm();
                        return Err(("c16:read-wrong-while-full".into(), format!("{what}; while the condition persists get({}) returns {} but the model says {}", crate::util::show(k), fmt_opt(&v), fmt_opt(&exp))));
                    }
                    Out::Err(_) => {
                        *out.counters.entry("reads_answering_err_while_refusing".into()).or_insert(0) += 1;
                    }
                    Out::Panic(p) => {
                        shim.disarm();
                        return Err(("c16:read-panic-while-full".into(), format!("{what}; while the condition persists get({}) panicked: {p}", crate::util::show(k))));
                    }
                }
            }
        }
        shim.disarm();
        if mode == 3 {
            set_fsize_limit(None);
        }
        let mut second_fired = false;
        if k2 > 0 {
            // second deviation: the retry is refused as well
            shim.arm(k2, mode);
            let r2 = st.exec(&cfg, &dl);
            second_fired = shim.refused() > 0;
            shim.disarm();
            if second_fired {
                match &r2 {
                    None => return Err((format!("c16:{}:error-not-reported", kind_name(dl.kind)), format!("{what}; the retry had its write #{k2} refused, but returned Ok"))),
                    Some(e) if e.contains("panicked") => return Err((format!("c16:{}:panic", kind_name(dl.kind)), format!("{what}; retry with write #{k2} refused: {e}"))),
                    Some(_) => {}
                }
            } else if let Some(e) = r2 {
                return Err((format!("c16:{}:retry-fails", kind_name(dl.kind)), format!("{what}; condition lifted, but the retry {e}")));
            }
        }
        // condition lifted, before any new flush: the in-memory view is fully correct
        for mi in 0..cfg.maps.len() {
            if st.opened_once[mi] {
                if let Some(e) = st.observe_map(&cfg, mi, 0, true) {
                    return Err(("c16:view-wrong-after-failure".into(), format!("{what}; condition lifted, before any new flush: {e}")));
                }
            }
        }
        // a read-only call between the failure and the retry must not make the retry a no-op
        if k1 % 2 == 1 {
            let _ = st.exec(&cfg, &Letter { kind: L_FILL, ..dl });
        }
        // a later flush succeeds and makes everything durable
        let fl = Letter { kind: if matches!(dl.kind, L_DB_SYNC_ALL | L_DB_SYNC_DATA) { dl.kind } else { L_FLUSH }, ..dl };
        if let Some(e) = st.exec(&cfg, &fl) {
            return Err(("c16:recovery-flush-fails".into(), format!("{what}; condition lifted, but the next {}: {e}", cfg.label(&fl))));
        }
        if let Err(e) = copy_dir(&dir, &snap) {
            return Err(("machinery:copy".into(), format!("copy: {e}")));
        }
        let cov = covered(&cfg, &st.opened_once, &fl);
        if let Some(e) = check_files(&cfg, &snap, &st.models, &cov).or_else(|| check_reopen(&cfg, &snap, &st.models, &cov, None)) {
            return Err(("c16:lost-after-recovery".into(), format!("{what}; condition lifted and {} returned Ok, but a copy of the directory: {e}", cfg.label(&fl))));
        }
        st.drop_all();
        Ok(second_fired)
    };
    let modes: Vec<i64> = if only_mode == 255 { vec![0, 1, 2] } else { vec![only_mode as i64] };
    let ks: Vec<i64> = if only_k == u64::MAX { (1..=w).collect() } else { vec![only_k as i64] };
    'outer: for k1 in ks {
        for mode in &modes {
            io.progress((k1 as u64) << 8 | *mode as u64);
            *out.counters.entry("single_refusals".into()).or_insert(0) += 1;
            match run_one(bw, &mut out, k1, *mode, 0) {
                Ok(_) => {}
                Err((key, msg)) => {
                    out.failure = Some((seq.clone(), dpos, key, msg));
                    break 'outer;
                }
            }
            if pairs {
                for k2 in 1..=(w + 2) {
                    match run_one(bw, &mut out, k1, *mode, k2) {
                        Ok(true) => *out.counters.entry("double_refusals".into()).or_insert(0) += 1,
                        Ok(false) => break,
                        Err((key, msg)) => {
                            out.failure = Some((seq.clone(), dpos, key, msg));
                            break 'outer;
                        }
                    }
                }
            }
        }
    }
    // the kernel's own mechanism at every distinct threshold (cross-check of the injector)
    if out.failure.is_none() && only_k == u64::MAX {
        for t in &thresholds {
            io.progress(3 << 40 | *t);
            *out.counters.entry("rlimit_thresholds".into()).or_insert(0) += 1;
            if let Err((key, msg)) = run_one(bw, &mut out, *t as i64, 3, 0) {
                set_fsize_limit(None);
                out.failure = Some((seq.clone(), dpos, key, msg));
                break;
            }
        }
        set_fsize_limit(None);
    }
    out.enc()
}

fn kind_name(k: u8) -> &'static str {
    match k {
        L_FLUSH => "flush",
        L_SYNC_ALL => "sync_all",
        L_SYNC_DATA => "sync_data",
        L_DB_SYNC_ALL => "db.sync_all",
        L_DB_SYNC_DATA => "db.sync_data",
        _ => "call",
    }
}

/// the fault enumeration of C16 for one file geometry
fn c16_geometry(ctx: &mut Ctx, label: &str, m0: BMap, val_lens: Vec<u32>, limit: f64, max_u: usize) -> (usize, bool) {
    let seed = ctx.seed;
    let thorough = ctx.thorough();
    let updates = vec![
        Letter { kind: L_PUT, map: 0, handle: H_FIRST, key: 0, val: 0 },
        Letter { kind: L_PUT, map: 0, handle: H_FIRST, key: 0, val: 1 },
        Letter { kind: L_PUT, map: 0, handle: H_FIRST, key: 1, val: 0 },
        Letter { kind: L_PUT, map: 0, handle: H_FIRST, key: 1, val: 1 },
        Letter { kind: L_DEL, map: 0, handle: H_FIRST, key: 0, val: 0 },
        Letter { kind: L_DEL, map: 0, handle: H_FIRST, key: 1, val: 0 },
    ];
    let mut updates = updates;
    // a second, small map of the key type the database syncs last: a database-level sync must report
    // the failure of an earlier map even if the last one succeeds
    updates.push(Letter { kind: L_PUT, map: 1, handle: H_FIRST, key: 0, val: 0 });
    // a successful flush inside the history: what is updated after it must be written by the next one
    updates.push(Letter { kind: L_FLUSH, map: 0, handle: H_FIRST, key: 0, val: 0 });
    // an overwrite that fits the slot of the value it replaces (other bytes, same slot): only bytes inside a record change
    updates.push(Letter { kind: L_PUT, map: 0, handle: H_FIRST, key: 0, val: 2 });
    let nu = updates.len();
    let mut letters = updates;
    for k in [L_FLUSH, L_SYNC_DATA, L_SYNC_ALL, L_DB_SYNC_ALL, L_DB_SYNC_DATA] {
        letters.push(Letter { kind: k, map: 0, handle: H_FIRST, key: 0, val: 0 });
    }
    let m1 = std_map(KtId::Vu64, 8, 1, 8, seed, "zz-last");
    let cfg = BCfg { prop: "C16".into(), maps: vec![m0, m1], val_lens: val_lens.clone(), letters, depth: 4, flags: 0, seed, reopen: vec![], other_params: Params::defaults() };
    ctx.pool.reinit(vec![{
        let mut b = Buf::new();
        b.u8(JOB_B_CONFIG).bytes(&cfg.enc());
        b.0
    }]);
    // histories: all update sequences of length 1..=max_u, each followed by each durability call
    let mut histories: Vec<Vec<u8>> = Vec::new();
    let mut level: Vec<Vec<u8>> = vec![vec![]];
    for _ in 0..max_u {
        let mut next = Vec::new();
        for p in &level {
            for u in 0..nu {
                let mut q = p.clone();
                q.push(u as u8);
                next.push(q);
            }
        }
        for u in &next {
            for d in nu..cfg.letters.len() {
                let mut h = u.clone();
                h.push(d as u8);
                histories.push(h);
            }
        }
        level = next;
    }
    let t0 = ctx.run.elapsed();
    let mut complete = true;
    let mut hdone = 0usize;
    for chunk in histories.chunks(ctx.pool.size() * 2) {
        if ctx.run.elapsed() - t0 > limit {
            complete = false;
            break;
        }
        let jobs: Vec<Vec<u8>> = chunk
            .iter()
            .map(|h| {
                let mut b = Buf::new();
                // pairs (2 deviations) in the thorough tier for histories of up to 2 updates
                b.u8(JOB_C16_RUN).bytes(h).u8(if (thorough && h.len() <= 3) || h.len() <= 2 { 1 } else { 0 }).u64(u64::MAX).u8(255);
                b.0
            })
            .collect();
        let results = ctx.pool.map(&jobs, |i| i);
        for (i, res) in results.into_iter().enumerate() {
            hdone += 1;
            match res {
                JobResult::Done(b) => {
                    let o = BOutcome::dec(&b);
                    for (k, v) in &o.counters {
                        ctx.run.add(k, *v);
                    }
                    ctx.states += o.sequences;
                    ctx.transitions += o.calls;
                    if let Some((seq, pos, key, msg)) = o.failure {
                        if key.starts_with("machinery:") {
                            crate::report::machinery_failure(&msg);
                        }
                        let mut case = Buf::new();
                        case.bytes(&seq);
                        let mut story = seq_story(&cfg, &seq, pos);
                        story.push(format!("observed: {msg}"));
                        ctx.run.violation(Violation { prop: "C16".into(), key, message: msg, replay: Replay { engine: "C16".into(), config: cfg.enc(), case: case.0, story } });
                    }
                }
                JobResult::Crashed { progress, how } => {
                    let msg = format!("fault injection run does not return normally ({how}) at k/mode {:?}", progress.map(|p| (p >> 8, p & 255)));
                    let mut case = Buf::new();
                    case.bytes(&chunk[i]);
                    let mut story = seq_story(&cfg, &chunk[i], chunk[i].len());
                    story.push(format!("observed: {msg}"));
                    let kind = if how.contains("hang") { "hang" } else { "abort" };
                    ctx.run.violation(Violation { prop: "C16".into(), key: format!("c16:{kind}"), message: msg, replay: Replay { engine: "C16".into(), config: cfg.enc(), case: case.0, story } });
                }
            }
        }
        if !ctx.run.violations.is_empty() {
            complete = false;
            break;
        }
    }
    eprintln!("[C16] {label}: histories={}/{} single_refusals={} double={} {:.1}s", hdone, histories.len(), ctx.run.get("single_refusals"), ctx.run.get("double_refusals"), ctx.run.elapsed() - t0);
    for h in histories.iter().take(3).chain(histories.iter().rev().take(2)) {
        ctx.run.sample(J::Arr(h.iter().map(|li| J::s(&cfg.label(&cfg.letters[*li as usize]))).collect()));
    }
    (hdone, complete)
}

pub fn c16(tier: &str, seed: u64) -> i32 {
    let mut ctx = Ctx::new("C16", tier, seed, "fault_enumeration");
    let thorough = ctx.thorough();
    ctx.pool = Pool::new(ctx.pool.size(), shim_env(), vec![]);
    // three geometries, so that each of the three files is in turn the largest (and the only one beyond a
    // file-size limit): a 65536-bucket table; 300000-byte values on a 16-bucket table; 3000-byte keys on a 16-bucket table
    let mut hdone = 0usize;
    let mut complete = true;
    let deep = if thorough { 4 } else { 2 };
    let geoms: Vec<(&str, BMap, Vec<u32>, usize)> = vec![
        ("table file largest (65536 buckets)", std_map(KtId::Bytes, 65536, 2, 9, seed, "m"), vec![6, 300_000, 7], deep),
        ("value file largest (16 buckets, 300000-byte values)", std_map(KtId::Bytes, 16, 2, 9, seed, "m"), vec![6, 300_000, 7], if thorough { 4 } else { 3 }),
        ("key file largest (16 buckets, 3000-byte keys)", std_map(KtId::Bytes, 16, 2, 3000, seed, "m"), vec![1, 9, 2], if thorough { 4 } else { 3 }),
    ];
    let per = if thorough { 900.0 } else { 25.0 };
    for (label, m0, vl, max_u) in geoms {
        let (h, c) = c16_geometry(&mut ctx, label, m0, vl, per, max_u);
        hdone += h;
        complete = complete && c;
        if !ctx.run.violations.is_empty() {
            break;
        }
    }
    let evals = ctx.run.get("single_refusals") + ctx.run.get("double_refusals") + ctx.run.get("rlimit_thresholds");
    ctx.run.set("evaluations", J::Int(evals));
    ctx.run.set("distinct_nontrivial", J::Int(evals));
    ctx.run.set("histories", J::Int(hdone as i64));
    ctx.run.set("rule", J::s("deviation-bounded fault enumeration at the system-call boundary (LD_PRELOAD shim): for every update history (all sequences of 1..n updates over put small/300000-byte values on 2 keys, delete, and a put on a second small map of the key type the database syncs last; 65536-bucket table so that all three files have dirty chunks) followed by each of flush/sync_data/sync_all/db.sync_all/db.sync_data: run once unfaulted and count the W write calls of the durability call; then for every k in 1..W and three refusal modes (ENOSPC from the k-th write on; short write then ENOSPC; a file-size limit at the k-th write's offset, i.e. later writes to smaller offsets of other files still succeed, as under RLIMIT_FSIZE) run again (1 deviation), in the thorough tier additionally every refused retry (2 deviations); finally the kernel's own mechanism: setrlimit(RLIMIT_FSIZE) with SIGXFSZ ignored at every distinct threshold (start and last byte of every write of the call), so each of the three files and each position within them is in turn the first to fail. oracle: the call returns Err; while refusing, reads answer the model's value or Err, never a wrong Ok or a panic; after lifting, before any flush, every get/len/iteration equals the model; the next flush returns Ok and a copy of the directory decodes and opens to the model. every case is distinct (history, call, k, mode) and non-trivial (a write was really refused; runs where the injector did not fire are machinery errors)"));
    ctx.run.exhaustive = complete;
    ctx.run.assumptions.push("only write/pwrite refusals are injected (the property's wording); failing fsync/ftruncate is not explored".into());
    if evals == 0 && ctx.run.violations.is_empty() {
        crate::report::machinery_failure("C16: no write was ever refused: the durability calls issue no writes (vacuous)");
    }
    let run = ctx.run;
    drop(ctx.pool);
    run.finish()
}

pub fn replay_c16(config: &[u8], case: &[u8]) -> i32 {
    let cfg = BCfg::dec(config);
    let mut r = Rd::new(case);
    let seq = r.vec();
    println!("replay C16 (needs the shim: run through ./check --replay)");
    for l in seq_story(&cfg, &seq, seq.len()) {
        println!("  {l}");
    }
    let mut bw = BWorker::new(cfg);
    let mut b = Buf::new();
    b.bytes(&seq).u8(0).u64(u64::MAX).u8(255);
    let mut io = WorkerIo::sink();
    let o = BOutcome::dec(&c16_run(&mut bw, &b.0, &mut io));
    match o.failure {
        Some((_, pos, key, msg)) => {
            println!("REPLAY VIOLATION at call {} [{key}]: {msg}", pos + 1);
            1
        }
        None => {
            println!("REPLAY: no violation reproduced");
            0
        }
    }
}

// ---------------------------------------------------------------------------------------------
// C18: whole histories without re-open, executed twice in different processes

fn c18_run(bw: &mut BWorker, payload: &[u8]) -> Vec<u8> {
    let mut r = Rd::new(payload);
    let seq = r.vec();
    let splice = r.u8() == 1;
    let mut cfg = bw.cfg.clone();
    cfg.flags = F_RETURN_IMAGES | if splice { F_SPLICE_RO } else { 0 };
    cfg.depth = seq.len() as u8;
    let saved = std::mem::replace(&mut bw.cfg, cfg);
    let mut out = BOutcome::default();
    if let Some((pos, msg)) = bw.run_sequence(&seq, &mut out, None) {
        out.failure = Some((seq.clone(), pos, "history:fails".into(), msg));
    }
    bw.cfg = saved;
    out.enc()
}

pub const SPLICE_KINDS: [&str; 6] = ["get(k0)", "get(k1)", "len + is_empty", "full iteration", "the seven statistics calls", "includes_key + get_string + bulk_get + bulk_get_string"];

/// one history, executed plain and then once for every non-empty set of positions x every kind of
/// read-only call spliced in after exactly those positions; all executions must leave the same files
fn c18_masks(bw: &mut BWorker, payload: &[u8], io: &mut WorkerIo) -> Vec<u8> {
    let mut r = Rd::new(payload);
    let single_only = r.u8() == 1;
    let nseq = r.u32();
    let seqs: Vec<Vec<u8>> = (0..nseq).map(|_| r.vec()).collect();
    let mut cfg = bw.cfg.clone();
    cfg.flags = F_RETURN_IMAGES;
    let saved = std::mem::replace(&mut bw.cfg, cfg.clone());
    let mut out = BOutcome::default();
    'outer: for (si, seq) in seqs.iter().enumerate() {
        io.progress(si as u64);
        bw.cfg.depth = seq.len() as u8;
        let mut o0 = BOutcome::default();
        if bw.run_sequence(seq, &mut o0, None).is_some() {
            *out.counters.entry("whole_histories_failing".into()).or_insert(0) += 1;
            continue;
        }
        out.sequences += 1;
        out.calls += o0.calls;
        let plain = o0.images.clone();
        for mask in 1u32..(1 << seq.len()) {
            if single_only && mask.count_ones() != 1 {
                continue;
            }
            for kind in 0..SPLICE_KINDS.len() {
                let mut hook = |cfg: &BCfg, st: &mut BState, pos: usize, l: &Letter, ok: bool| -> Option<String> {
                    if !ok || (mask >> pos) & 1 == 0 {
                        return None;
                    }
                    let mi = l.map as usize % cfg.maps.len();
                    let keys = cfg.maps[mi].keys.clone();
                    if let Ok(h) = st.handle(cfg, mi, 0) {
                        match kind {
                            0 => {
                                let _ = guard(|| h.get(&keys[0]));
                            }
                            1 => {
                                let _ = guard(|| h.get(&keys[keys.len() - 1]));
                            }
                            2 => {
                                let _ = guard(|| h.len());
                                let _ = guard(|| h.is_empty());
                            }
                            3 => {
                                let _ = guard_plain(|| h.items());
                            }
                            4 => h.stats_all(),
                            _ => h.lookups_all(&keys),
                        }
                    }
                    None
                };
                let mut o1 = BOutcome::default();
                let res = bw.run_sequence(seq, &mut o1, Some(&mut hook));
                out.calls += o1.calls;
                *out.counters.entry("spliced_variants".into()).or_insert(0) += 1;
                if res.is_some() || o1.images != plain {
                    let positions: Vec<usize> = (0..seq.len()).filter(|p| (mask >> p) & 1 == 1).map(|p| p + 1).collect();
                    let msg = format!("the history leaves different files when {} is called after call(s) {:?} (and nowhere else): {}", SPLICE_KINDS[kind], positions, match res { Some((_, e)) => e, None => Image::unpack(&plain[0]).describe_diff(&Image::unpack(&o1.images[0])) });
                    let mut case = seq.clone();
                    case.push(255);
                    out.failure = Some((case, seq.len(), format!("history:splice:{}", SPLICE_KINDS[kind].replace(' ', "")), msg));
                    break 'outer;
                }
            }
        }
    }
    bw.cfg = saved;
    out.enc()
}

pub fn c18_whole_histories(ctx: &mut Ctx) {
    let seed = ctx.seed;
    let thorough = ctx.thorough();
    let mut letters = letters_updates_reads(0, 2, 3, &[H_FIRST], false);
    letters.push(Letter { kind: L_FLUSH, map: 0, handle: H_FIRST, key: 0, val: 0 });
    // a bulk call: the order in which it applies its pairs must not depend on the process
    letters.push(Letter { kind: L_BULK_PUT, map: 0, handle: H_FIRST, key: 0, val: 0 });
    // an update through a handle from a second lookup of the same name (the same state, not a second instance)
    letters.push(Letter { kind: L_PUT, map: 0, handle: H_LOOKUP, key: 1, val: 1 });
    let cfg = BCfg { prop: "C18".into(), maps: vec![std_map(KtId::Bytes, 8, 2, 11, seed, "m")], val_lens: vec![4, 40, 70_000], letters, depth: if thorough { 5 } else { 4 }, flags: F_RETURN_IMAGES, seed, reopen: vec![], other_params: Params::defaults() };
    ctx.pool.reinit(vec![{
        let mut b = Buf::new();
        b.u8(JOB_B_CONFIG).bytes(&cfg.enc());
        b.0
    }]);
    let a = cfg.letters.len() as u64;
    let total = a.pow(cfg.depth as u32);
    let n = ctx.pool.size();
    let t0 = ctx.run.elapsed();
    let mut compared = 0u64;
    let mut idx0 = 0u64;
    let mut complete = true;
    while idx0 < total {
        if ctx.run.elapsed() - t0 > if thorough { 200.0 } else { 12.0 } {
            complete = false;
            break;
        }
        let hi = (idx0 + 512).min(total);
        let mut jobs: Vec<Vec<u8>> = Vec::new();
        let mut seqs: Vec<Vec<u8>> = Vec::new();
        for idx in idx0..hi {
            let mut seq = vec![0u8; cfg.depth as usize];
            let mut x = idx;
            for p in (0..cfg.depth as usize).rev() {
                seq[p] = (x % a) as u8;
                x /= a;
            }
            for sp in [0u8, 1] {
                let mut b = Buf::new();
                b.u8(JOB_C18_RUN).bytes(&seq).u8(sp);
                jobs.push(b.0);
            }
            seqs.push(seq);
        }
        // job 2i (plain) and job 2i+1 (spliced) go to different worker processes
        let results = ctx.pool.map(&jobs, |j| (j / 2) + (j % 2) * (1 + (j / 2 / n) % (n.max(2) - 1)));
        for (i, seq) in seqs.iter().enumerate() {
            let (ra, rb) = (&results[2 * i], &results[2 * i + 1]);
            match (ra, rb) {
                (JobResult::Done(ba), JobResult::Done(bb)) => {
                    let oa = BOutcome::dec(ba);
                    let ob = BOutcome::dec(bb);
                    ctx.transitions += oa.calls + ob.calls;
                    ctx.states += 2;
                    if oa.failure.is_some() || ob.failure.is_some() {
                        ctx.run.add("whole_histories_failing", 1);
                        continue; // a C01 matter, reported there
                    }
                    compared += 1;
                    if oa.images != ob.images {
                        let msg = format!("the same update history executed in two processes and directories (second with read-only calls after every update) leaves different files: {}", Image::unpack(&oa.images[0]).describe_diff(&Image::unpack(&ob.images[0])));
                        let mut case = Buf::new();
                        case.bytes(seq);
                        let mut story = seq_story(&cfg, seq, seq.len());
                        story.push(format!("observed: {msg}"));
                        ctx.run.violation(Violation { prop: "C18".into(), key: "history:differs".into(), message: msg, replay: Replay { engine: "C18".into(), config: cfg.enc(), case: case.0, story } });
                    }
                }
                _ => {
                    ctx.run.add("whole_histories_crashed", 1);
                }
            }
        }
        idx0 = hi;
        if !ctx.run.violations.is_empty() {
            complete = false;
            break;
        }
    }
    // every placement of every kind of read-only call (in-process comparison)
    // quick: depth 3 with every set of positions + depth 4 with every single position;
    // thorough: depth 4 with every set of positions + depth 5 with every single position
    let passes: Vec<(u8, bool)> = if thorough { vec![(4, false), (5, true)] } else { vec![(3, false), (4, true)] };
    for (mdepth, single_only) in passes {
        if !ctx.run.violations.is_empty() {
            break;
        }
        let mut mcfg = cfg.clone();
        mcfg.depth = mdepth;
        let a2 = mcfg.letters.len() as u64;
        let total2 = a2.pow(mcfg.depth as u32);
        let mut jobs: Vec<Vec<u8>> = Vec::new();
        let per = 24u64;
        let mut idx = 0u64;
        while idx < total2 {
            let hi = (idx + per).min(total2);
            let mut b = Buf::new();
            b.u8(JOB_C18_MASKS).u8(single_only as u8).u32((hi - idx) as u32);
            for i in idx..hi {
                let mut seq = vec![0u8; mcfg.depth as usize];
                let mut x = i;
                for p in (0..mcfg.depth as usize).rev() {
                    seq[p] = (x % a2) as u8;
                    x /= a2;
                }
                b.bytes(&seq);
            }
            jobs.push(b.0);
            idx = hi;
        }
        let t1 = ctx.run.elapsed();
        let limit = if thorough { 400.0 } else { 25.0 };
        let mut variants = 0i64;
        let mut hist = 0u64;
        for chunk in jobs.chunks(ctx.pool.size() * 2) {
            if ctx.run.elapsed() - t1 > limit {
                complete = false;
                break;
            }
            let results = ctx.pool.map(chunk, |i| i);
            for res in results {
                match res {
                    JobResult::Done(b) => {
                        let o = BOutcome::dec(&b);
                        hist += o.sequences;
                        ctx.transitions += o.calls;
                        variants += o.counters.get("spliced_variants").copied().unwrap_or(0);
                        if let Some((mut seq, pos, key, msg)) = o.failure {
                            seq.pop();
                            let mut case = Buf::new();
                            case.bytes(&seq);
                            let mut story = seq_story(&mcfg, &seq, pos);
                            story.push(format!("observed: {msg}"));
                            ctx.run.violation(Violation { prop: "C18".into(), key, message: msg, replay: Replay { engine: "C18m".into(), config: mcfg.enc(), case: case.0, story } });
                        }
                    }
                    JobResult::Crashed { how, .. } => {
                        ctx.run.add("whole_histories_crashed", 1);
                        ctx.run.notes.push(format!("a splice-enumeration job crashed: {how}"));
                    }
                }
            }
            if !ctx.run.violations.is_empty() {
                complete = false;
                break;
            }
        }
        ctx.run.add("double_executions", variants);
        ctx.states += hist;
        eprintln!("[C18] splice enumeration depth {}: {hist} histories x ({} x {} kinds) = {variants} spliced executions {:.1}s", mcfg.depth, if single_only { "every single position".to_string() } else { format!("2^{} - 1 position sets", mcfg.depth) }, SPLICE_KINDS.len(), ctx.run.elapsed() - t1);
        ctx.runs.push(J::obj(vec![
            ("label", J::s("engine B: every update history of this depth executed plain and then once for every non-empty set of positions x every kind of read-only call (get k0, get k1, len+is_empty, full iteration, the statistics calls, the other lookups) spliced in after exactly those positions; files compared after close")),
            ("depth", J::Int(mcfg.depth as i64)),
            ("position_sets", J::s(if single_only { "every single position" } else { "every non-empty set of positions" })),
            ("histories", J::Int(hist as i64)),
            ("spliced_executions", J::Int(variants)),
        ]));
    }
    if !complete {
        ctx.all_closed = false;
    }
    ctx.run.add("double_executions", compared as i64);
    eprintln!("[C18] whole histories compared: {compared} of {total} {:.1}s", ctx.run.elapsed() - t0);
    ctx.runs.push(J::obj(vec![
        ("label", J::s("engine B: every update history of this depth on live handles (no re-open), executed twice in different worker processes, the second time with get/len/iteration after every update; files compared after close")),
        ("letters", J::Arr(cfg.letters.iter().map(|l| J::s(&cfg.label(l))).collect())),
        ("depth", J::Int(cfg.depth as i64)),
        ("histories_compared", J::Int(compared as i64)),
        ("all_histories_of_that_depth", J::Bool(complete)),
    ]));
}

pub fn replay_c18m(config: &[u8], case: &[u8]) -> i32 {
    let cfg = BCfg::dec(config);
    let mut r = Rd::new(case);
    let seq = r.vec();
    for l in seq_story(&cfg, &seq, seq.len()) {
        println!("  {l}");
    }
    let mut bw = BWorker::new(cfg);
    let mut b = Buf::new();
    b.u8(0).u32(1).bytes(&seq);
    let mut io = WorkerIo::sink();
    let o = BOutcome::dec(&c18_masks(&mut bw, &b.0, &mut io));
    match o.failure {
        Some((_, _, key, msg)) => {
            println!("REPLAY VIOLATION [{key}]: {msg}");
            1
        }
        None => {
            println!("REPLAY: no violation reproduced");
            0
        }
    }
}

pub fn replay_c18(config: &[u8], case: &[u8]) -> i32 {
    let cfg = BCfg::dec(config);
    let mut r = Rd::new(case);
    let seq = r.vec();
    for l in seq_story(&cfg, &seq, seq.len()) {
        println!("  {l}");
    }
    let mut bw = BWorker::new(cfg);
    let mut imgs = Vec::new();
    for sp in [0u8, 1] {
        let mut b = Buf::new();
        b.bytes(&seq).u8(sp);
        imgs.push(BOutcome::dec(&c18_run(&mut bw, &b.0)).images);
    }
    if imgs[0] != imgs[1] {
        println!("REPLAY VIOLATION: the two executions leave different files");
        1
    } else {
        println!("REPLAY: no violation reproduced (in one process; the original compared two processes)");
        0
    }
}

// ---------------------------------------------------------------------------------------------

pub fn worker_job(kind: u8, payload: &[u8], io: &mut WorkerIo) -> Vec<u8> {
    crate::engine_b::with_bworker(|bw| match kind {
        JOB_C03_RUN => c03_run(bw, payload, io),
        JOB_C03_EXAMINE => c03_examine(bw, payload),
        JOB_C16_RUN => c16_run(bw, payload, io),
        JOB_C18_RUN => c18_run(bw, payload),
        JOB_C18_MASKS => c18_masks(bw, payload, io),
        _ => Vec::new(),
    })
}
