//! Engine D: exhaustive sweeps of finite input domains. C04 (table occupancy patterns),
//! C09 (lengths), C10 (typed keys), C13 (signatures), C14 (bulk calls).
#![allow(dead_code)]

use crate::alphabet::*;
use crate::decoder::{self, place_hash};
use crate::engine_a::{check_flavour, run_flavour, ITER_FLAVOURS};
use crate::pool::{JobResult, WorkerIo};
use crate::props_a::Ctx;
use crate::report::{Replay, Violation};
use crate::subject::*;
use crate::util::{show, Buf, Rd, SplitMix, J};
use abyssiniandb::filedb::FileDbMap;
use abyssiniandb::{DbXxx, DbXxxBase};
use std::collections::BTreeMap;

pub const JOB_D_C04: u8 = 40;

// ---------------------------------------------------------------------------------------------
// C04

pub fn boundary_set(n: u64) -> Vec<u64> {
    let mut v: Vec<i64> = vec![0, 1, 7, 8, 9, 55, 56, 57, 63, 64, 65, 71, 72];
    let n = n as i64;
    v.extend([n / 2 - 1, n / 2]);
    v.extend((n - 73)..=(n - 55));
    v.extend((n - 10)..=(n - 7));
    v.extend([n - 2, n - 1]);
    let mut out: Vec<u64> = v.into_iter().filter(|x| *x >= 0 && *x < n).map(|x| x as u64).collect();
    out.sort();
    out.dedup();
    out
}

/// two keys for each wanted bucket of a table of n buckets
fn keys_for_buckets(n: u64, wanted: Option<&[u64]>, seed: u64) -> BTreeMap<u64, Vec<Vec<u8>>> {
    let mut m: BTreeMap<u64, Vec<Vec<u8>>> = BTreeMap::new();
    let need: u64 = match wanted {
        Some(w) => w.len() as u64,
        None => n,
    };
    let want_set: Option<std::collections::HashSet<u64>> = wanted.map(|w| w.iter().copied().collect());
    let mut rng = SplitMix(seed ^ 0xC04);
    let mut full = 0u64;
    let mut tries = 0u64;
    while full < need {
        tries += 1;
        if tries > 4_000_000_000 {
            crate::report::machinery_failure("C04 key search exhausted");
        }
        let k = rng.next().to_be_bytes().to_vec();
        let b = place_hash(&k) % n;
        if let Some(ws) = &want_set {
            if !ws.contains(&b) {
                continue;
            }
        }
        let e = m.entry(b).or_default();
        if e.len() < 2 {
            e.push(k);
            if e.len() == 2 {
                full += 1;
            }
        }
    }
    m
}

struct C04State<T: Kt> {
    m: FileDbMap<T>,
    model: BTreeMap<Vec<u8>, Vec<u8>>,
    keys: BTreeMap<u64, Vec<Vec<u8>>>,
    occupied: std::collections::BTreeSet<u64>,
    chain: usize,
    patterns: u64,
    traversals: u64,
    max_items: u64,
}

impl<T: Kt> C04State<T> {
    fn set(&mut self, b: u64, on: bool) -> Result<(), String> {
        let ks = self.keys.get(&b).cloned().unwrap_or_default();
        for k in ks.iter().take(self.chain) {
            if on {
                let v = vec![(b % 251) as u8, k[0], 7];
                let r = guard(|| self.m.put(&k[..], &v));
                if r != Out::Ok(()) {
                    return Err(format!("put into bucket {b} {}", r.failed().unwrap_or_default()));
                }
                self.model.insert(k.clone(), v);
            } else {
                let exp = self.model.remove(k);
                let r = guard(|| self.m.delete(&k[..]));
                if r != Out::Ok(exp) {
                    return Err(format!("delete from bucket {b} gives {:?}", r));
                }
            }
        }
        if on {
            self.occupied.insert(b);
        } else {
            self.occupied.remove(&b);
        }
        Ok(())
    }
    fn check(&mut self, flavours: &[usize]) -> Result<(), String> {
        self.patterns += 1;
        self.max_items = self.max_items.max(self.model.len() as u64);
        let r = guard(|| self.m.len());
        if r != Out::Ok(self.model.len() as u64) {
            return Err(format!("len() gives {:?} but {} entries are live", r, self.model.len()));
        }
        for f in flavours {
            self.traversals += 1;
            match run_flavour(&mut self.m, *f, self.model.len()) {
                Out::Ok(Ok(items)) => {
                    if let Some(bad) = check_flavour(*f, &items, &self.model) {
                        return Err(format!("{} {}", ITER_FLAVOURS[*f], bad));
                    }
                }
                Out::Ok(Err(bad)) => return Err(format!("{}: {}", ITER_FLAVOURS[*f], bad)),
                o => return Err(format!("{} {}", ITER_FLAVOURS[*f], o.failed().unwrap_or_default())),
            }
        }
        Ok(())
    }
}

fn describe_pattern(occ: &std::collections::BTreeSet<u64>, n: u64, chain: usize) -> String {
    if occ.len() <= 12 {
        format!("occupied buckets {:?} of {n}, {chain} key(s) per bucket", occ)
    } else if occ.len() as u64 >= n - 12 {
        let empty: Vec<u64> = (0..n).filter(|b| !occ.contains(b)).collect();
        format!("all {n} buckets occupied except {:?}, {chain} key(s) per bucket", empty)
    } else {
        format!("{} of {n} buckets occupied, {chain} key(s) per bucket", occ.len())
    }
}

fn pattern_key(occ: &std::collections::BTreeSet<u64>, n: u64) -> String {
    let shape = if occ.is_empty() {
        "empty".to_string()
    } else if occ.len() <= 2 {
        format!("sparse{}", occ.len())
    } else if occ.len() as u64 >= n.saturating_sub(1) {
        "dense".to_string()
    } else {
        "mixed".to_string()
    };
    format!("n={n}:{shape}")
}

/// payload: params, expected n, family, lo, hi, chain, seed
fn c04_job(payload: &[u8], io: &mut WorkerIo) -> Vec<u8> {
    let mut r = Rd::new(payload);
    let p = Params::dec(&mut r);
    let n = r.u64();
    let family = r.u8();
    let lo = r.u64();
    let hi = r.u64();
    let chain = r.u8() as usize;
    let seed = r.u64();
    let replay_set: Vec<u64> = {
        let c = r.u32();
        (0..c).map(|_| r.u64()).collect()
    };
    let scratch = Scratch::new("c04");
    let dir = scratch.fresh("d");
    let mut out = Buf::new();
    let fail = |out: &mut Buf, key: &str, msg: &str, occ: &[u64], pats: u64, trav: u64, maxi: u64| {
        out.u8(1).str(key).str(msg).u32(occ.len() as u32);
        for o in occ {
            out.u64(*o);
        }
        out.u64(pats).u64(trav).u64(maxi);
    };
    let (db, m) = match open_map::<abyssiniandb::DbBytes>(&dir, MAP_NAME, &p) {
        Out::Ok(x) => x,
        o => {
            fail(&mut out, &format!("n={n}:create"), &format!("creating the map {}", o.failed().unwrap_or_default()), &[], 0, 0, 0);
            return out.0;
        }
    };
    let bset = boundary_set(n);
    let wanted: Option<Vec<u64>> = match family {
        3 | 4 if n > 65536 => Some(bset.clone()),
        5 => Some(replay_set.clone()),
        _ => None,
    };
    let dense = family == 3;
    let keys = if n > 65536 || family == 5 { keys_for_buckets(n, wanted.as_deref(), seed) } else { keys_for_buckets(n, None, seed) };
    let mut st = C04State::<abyssiniandb::DbBytes> { m, model: BTreeMap::new(), keys, occupied: Default::default(), chain, patterns: 0, traversals: 0, max_items: 0 };
    let all: Vec<usize> = (0..ITER_FLAVOURS.len()).collect();
    let cheap: Vec<usize> = vec![0, 2];
    let mut cursor = 0u64;
    let res: Result<(), String> = (|| {
        match family {
            0 => {
                // all subsets in Gray code order, indices lo..hi
                let g = |i: u64| i ^ (i >> 1);
                let start = g(lo);
                for b in 0..n {
                    if (start >> b) & 1 == 1 {
                        st.set(b, true)?;
                    }
                }
                let mut cur = start;
                for i in lo..hi {
                    let want = g(i);
                    let diff = cur ^ want;
                    if diff != 0 {
                        let b = diff.trailing_zeros() as u64;
                        st.set(b, (want >> b) & 1 == 1)?;
                    }
                    cur = want;
                    cursor = i;
                    io.progress(i);
                    st.check(&all)?;
                }
            }
            1 | 4 => {
                // pairs {a,b}: a from positions lo..hi of the universe (all buckets or the boundary set)
                let universe: Vec<u64> = if family == 1 { (0..n).collect() } else { bset.clone() };
                for ai in lo..hi.min(universe.len() as u64) {
                    let a = universe[ai as usize];
                    st.set(a, true)?;
                    io.progress(ai);
                    st.check(&all)?; // the singleton
                    for b in universe.iter().skip(ai as usize + 1) {
                        st.set(*b, true)?;
                        cursor = ai;
                        st.check(if family == 1 && n > 64 { &cheap } else { &all })?;
                        st.set(*b, false)?;
                    }
                    st.set(a, false)?;
                    st.check(&cheap)?; // emptied again
                }
            }
            2 => {
                for a in lo..hi.min(n) {
                    st.set(a, true)?;
                    io.progress(a);
                    st.check(&all)?;
                    st.set(a, false)?;
                }
                st.check(&all)?;
            }
            3 => {
                // dense, and dense except one bucket at positions lo..hi of the universe
                let universe: Vec<u64> = if n <= 1024 { (0..n).collect() } else { bset.clone() };
                for b in 0..n {
                    if n > 65536 && !bset.contains(&b) {
                        continue;
                    }
                    st.set(b, true)?;
                }
                st.check(&all)?;
                for ai in lo..hi.min(universe.len() as u64) {
                    let a = universe[ai as usize];
                    st.set(a, false)?;
                    io.progress(ai);
                    st.check(if n > 4096 { &cheap } else { &all })?;
                    st.set(a, true)?;
                }
            }
            _ => {
                // replay: exactly this pattern
                for b in &replay_set {
                    st.set(*b, true)?;
                }
                st.check(&all)?;
            }
        }
        Ok(())
    })();
    let _ = dense;
    let _ = cursor;
    match res {
        Ok(()) => {
            out.u8(0).u64(st.patterns).u64(st.traversals).u64(st.max_items);
        }
        Err(msg) => {
            let occ: Vec<u64> = st.occupied.iter().copied().collect();
            let key = pattern_key(&st.occupied, n);
            let full = format!("{}: {msg}", describe_pattern(&st.occupied, n, chain));
            fail(&mut out, &key, &full, &occ, st.patterns, st.traversals, st.max_items);
        }
    }
    let C04State { m, .. } = st;
    let _ = guard_plain(move || {
        drop(m);
        drop(db);
    });
    out.0
}

fn c04_make_job(p: &Params, n: u64, family: u8, lo: u64, hi: u64, chain: u8, seed: u64, replay: &[u64]) -> Vec<u8> {
    let mut b = Buf::new();
    b.u8(JOB_D_C04);
    p.enc(&mut b);
    b.u64(n).u8(family).u64(lo).u64(hi).u8(chain).u64(seed).u32(replay.len() as u32);
    for x in replay {
        b.u64(*x);
    }
    b.0
}

pub fn c04(tier: &str, seed: u64) -> i32 {
    let mut ctx = Ctx::new("C04", tier, seed, "model_checking");
    let thorough = ctx.thorough();
    ctx.pool.reinit(vec![]);
    // jobs: (label, job)
    let mut jobs: Vec<(String, u64, Vec<u8>)> = Vec::new();
    let sizes: Vec<u64> = (0..=16).map(|k| 1u64 << k).collect();
    for &n in &sizes {
        // the table size is requested directly and, where possible, as a capacity that rounds to it
        let mut ps = vec![Params::buckets(n)];
        if n >= 16 {
            ps.push(Params { ht: HtP::Capacity(n * 8 / 9), ..Params::defaults() });
            ps.push(Params { ht: HtP::Buckets(n - n / 4 + 1), ..Params::defaults() });
        } else if n == 8 {
            ps.push(Params { ht: HtP::Capacity(3), ..Params::defaults() });
        }
        for (pi, p) in ps.iter().enumerate() {
            if p.ht.expected_buckets() != n {
                continue;
            }
            let primary = pi == 0;
            if n <= 16 {
                let total = 1u64 << n;
                let parts = if n >= 12 { 16 } else { 1 };
                if primary || thorough {
                    for c in 0..parts {
                        jobs.push((format!("n={n} all 2^{n} occupancy patterns (Gray order), 1 key per bucket"), n, c04_make_job(p, n, 0, total * c / parts, total * (c + 1) / parts, 1, seed, &[])));
                    }
                }
                if primary && n <= 12 {
                    jobs.push((format!("n={n} all 2^{n} occupancy patterns, 2 keys per bucket"), n, c04_make_job(p, n, 0, 0, total, 2, seed, &[])));
                }
                if !primary {
                    jobs.push((format!("n={n} via {}: pairs", p.ht.label()), n, c04_make_job(p, n, 1, 0, n, 1, seed, &[])));
                }
            } else if n <= 1024 {
                if primary && (n <= 256 || thorough) {
                    let parts = (n / 16).max(1);
                    for c in 0..parts {
                        jobs.push((format!("n={n} all patterns of <= 2 occupied buckets"), n, c04_make_job(p, n, 1, n * c / parts, n * (c + 1) / parts, 1, seed, &[])));
                    }
                    jobs.push((format!("n={n} dense and dense-minus-one (every bucket)"), n, c04_make_job(p, n, 3, 0, n, 1, seed, &[])));
                    jobs.push((format!("n={n} boundary pairs with chains of 2"), n, c04_make_job(p, n, 4, 0, n, 2, seed, &[])));
                } else {
                    jobs.push((format!("n={n} via {}: boundary pairs", p.ht.label()), n, c04_make_job(p, n, 4, 0, n, 1, seed, &[])));
                    if primary {
                        jobs.push((format!("n={n} dense and dense-minus-one (every bucket)"), n, c04_make_job(p, n, 3, 0, n, 1, seed, &[])));
                    }
                }
            } else if primary {
                let nb = boundary_set(n).len() as u64;
                if thorough || n == 65536 || n == 2048 {
                    let parts = 8;
                    for c in 0..parts {
                        jobs.push((format!("n={n} all singletons"), n, c04_make_job(p, n, 2, n * c / parts, n * (c + 1) / parts, 1, seed, &[])));
                    }
                }
                jobs.push((format!("n={n} pairs over the boundary set ({nb} buckets)"), n, c04_make_job(p, n, 4, 0, nb, 1, seed, &[])));
                if thorough {
                    jobs.push((format!("n={n} pairs over the boundary set, chains of 2"), n, c04_make_job(p, n, 4, 0, nb, 2, seed, &[])));
                }
                if thorough || n == 65536 || n == 4096 {
                    jobs.push((format!("n={n} dense and dense-minus-one at the boundary set"), n, c04_make_job(p, n, 3, 0, nb, 1, seed, &[])));
                }
            }
        }
    }
    if thorough {
        let n = 16 * 1024 * 1024u64;
        let nb = boundary_set(n).len() as u64;
        jobs.push(("default table (16 Mi buckets): pairs over the boundary set".into(), n, c04_make_job(&Params::defaults(), n, 4, 0, nb, 1, seed, &[])));
    }
    ctx.pool.watchdog = std::time::Duration::from_secs(if thorough { 120 } else { 30 });
    let payloads: Vec<Vec<u8>> = jobs.iter().map(|j| j.2.clone()).collect();
    let t0 = ctx.run.elapsed();
    let results = ctx.pool.map(&payloads, |i| i);
    let mut per_label: BTreeMap<String, (u64, u64)> = BTreeMap::new();
    let mut patterns = 0u64;
    let mut traversals = 0u64;
    let mut nontrivial = 0u64;
    for (i, res) in results.into_iter().enumerate() {
        let (label, n, job) = &jobs[i];
        match res {
            JobResult::Done(b) => {
                let mut r = Rd::new(&b);
                if r.u8() == 0 {
                    let p = r.u64();
                    let t = r.u64();
                    let _mx = r.u64();
                    patterns += p;
                    traversals += t;
                    nontrivial += p;
                    let e = per_label.entry(label.clone()).or_insert((0, 0));
                    e.0 += p;
                    e.1 += t;
                } else {
                    let key = r.string();
                    let msg = r.string();
                    let c = r.u32();
                    let occ: Vec<u64> = (0..c).map(|_| r.u64()).collect();
                    patterns += r.u64();
                    traversals += r.u64();
                    let mut rd = Rd::new(&job[1..]);
                    let p = Params::dec(&mut rd);
                    let _n = rd.u64();
                    let _fam = rd.u8();
                    let _lo = rd.u64();
                    let _hi = rd.u64();
                    let chain = rd.u8();
                    let replay_job = c04_make_job(&p, *n, 5, 0, 0, chain, seed, &occ);
                    ctx.run.violation(Violation { prop: "C04".into(), key, message: format!("table {}: {msg}", p.ht.label()), replay: Replay { engine: "C04".into(), config: replay_job, case: vec![], story: vec![format!("{label}"), format!("table parameter {}", p.ht.label()), msg.clone(), "replay: the same occupancy pattern is rebuilt in a fresh map by puts in ascending bucket order".into()] } });
                }
            }
            JobResult::Crashed { how, progress } => {
                let mut rd = Rd::new(&job[1..]);
                let p = Params::dec(&mut rd);
                let kind = if how.contains("hang") { "hang" } else { "abort" };
                let key = format!("n={n}:{kind}");
                if !ctx.run.violations.iter().any(|v| v.key == key) {
                    match ctx.pool.run_isolated(job) {
                        JobResult::Crashed { how: how2, .. } => {
                            let msg = format!("{label} (table {}): the traversal does not return normally at step {:?}: {how}; confirmed in a fresh process: {how2}", p.ht.label(), progress);
                            ctx.run.violation(Violation { prop: "C04".into(), key, message: msg.clone(), replay: Replay { engine: "C04".into(), config: job.clone(), case: vec![], story: vec![msg] } });
                        }
                        JobResult::Done(_) => crate::report::machinery_failure(&format!("C04 crash did not reproduce: {how}")),
                    }
                }
            }
        }
    }
    eprintln!("[C04] jobs={} patterns={patterns} traversals={traversals} {:.1}s", jobs.len(), ctx.run.elapsed() - t0);
    ctx.states = patterns;
    ctx.transitions = traversals;
    for (l, (p, t)) in per_label.iter() {
        ctx.runs.push(J::obj(vec![("label", J::s(l)), ("patterns", J::Int(*p as i64)), ("traversals", J::Int(*t as i64))]));
    }
    for (l, _, _) in jobs.iter().step_by((jobs.len() / 6).max(1)) {
        ctx.run.sample(J::s(l));
    }
    ctx.run.add("patterns", patterns as i64);
    let _ = nontrivial;
    // the iterator oracle on arbitrary histories: closures under several table sizes
    if ctx.run.violations.is_empty() {
        for n in [8u64, 16, 64, 128, 1024] {
            let alphas = crate::props_a::alphas_small();
            let a = &alphas[if n == 8 { 1 } else { 0 }];
            let mut cfg = crate::props_a::make_cfg("C04", KtId::Bytes, n, a, seed);
            cfg.oracles = crate::engine_a::O_ITER;
            let starts: Vec<crate::engine_a::Start> = crate::props_a::empty_start(&mut ctx, &cfg).into_iter().collect();
            crate::props_a::run_closure(&mut ctx, &format!("{} [bytes, {n} buckets] all 7 iterator flavours on every state", a.label), &cfg, starts, 100_000, 30.0);
        }
        {
            // keys of about 1000 bytes (two-byte size field in the key record)
            let a = crate::props_a::Alpha { label: "2 long keys x {8}", colliding: vec![1000, 1500], other: vec![], vals: vec![8] };
            let mut cfg = crate::props_a::make_cfg("C04", KtId::Bytes, 8, &a, seed);
            cfg.oracles = crate::engine_a::O_ITER;
            let starts: Vec<crate::engine_a::Start> = crate::props_a::empty_start(&mut ctx, &cfg).into_iter().collect();
            crate::props_a::run_closure(&mut ctx, "2 colliding keys of 1000 and 1500 bytes x {8} [bytes]", &cfg, starts, 100_000, 30.0);
            // string keys that are not valid UTF-8 (the key type accepts any bytes)
            let a = crate::props_a::Alpha { label: "2 keys x {5,40}", colliding: vec![5], other: vec![5], vals: vec![5, 40] };
            let mut cfg = crate::props_a::make_cfg("C04", KtId::Str, 1, &a, seed);
            cfg.keys = vec![vec![0xFF, 0xFE, b'k'], vec![b'a', 0xC3]];
            cfg.init_vals = vec![None; 2];
            cfg.oracles = crate::engine_a::O_ITER;
            let starts: Vec<crate::engine_a::Start> = crate::props_a::empty_start(&mut ctx, &cfg).into_iter().collect();
            crate::props_a::run_closure(&mut ctx, "2 string keys that are not valid UTF-8 x {5,40} [string, 1 bucket]", &cfg, starts, 100_000, 30.0);
        }
        if ctx.run.violations.is_empty() {
            crate::props_a::int_boundary_closures(&mut ctx, "C04", crate::engine_a::O_ITER, 0);
        }
        if ctx.run.violations.is_empty() {
            // a key record of more than 128 KiB (three-byte size field) with a short key behind it in the chain
            let a = crate::props_a::Alpha { label: "a key of 140000 bytes and a short key x {8}", colliding: vec![140_000, 6], other: vec![], vals: vec![8] };
            let mut cfg = crate::props_a::make_cfg("C04", KtId::Bytes, 8, &a, seed);
            cfg.oracles = crate::engine_a::O_ITER;
            let starts: Vec<crate::engine_a::Start> = crate::props_a::empty_start(&mut ctx, &cfg).into_iter().collect();
            crate::props_a::run_closure(&mut ctx, "a colliding key of 140000 bytes and a short key x {8} [bytes]", &cfg, starts, 300, 8.0);
        }
        {
            // one live handle, traversals at arbitrary positions of the history (not after every call):
            // three same-length keys in a one-bucket table, so that a freed record's offset is reused
            use crate::engine_b::*;
            let mut letters: Vec<Letter> = Vec::new();
            for k in 0..3u8 {
                letters.push(Letter { kind: L_PUT, map: 0, handle: H_FIRST, key: k, val: 0 });
                letters.push(Letter { kind: L_DEL, map: 0, handle: H_FIRST, key: k, val: 0 });
            }
            letters.push(Letter { kind: L_ITER_CHECK, map: 0, handle: H_FIRST, key: 0, val: 0 });
            letters.push(Letter { kind: L_ITER_CHECK, map: 0, handle: H_CLONE, key: 0, val: 0 });
            let bcfg = BCfg { prop: "C04".into(), maps: vec![std_map(KtId::Bytes, 1, 3, 9, seed, "m")], val_lens: vec![6], letters, depth: if thorough { 7 } else { 6 }, flags: 0, seed, reopen: vec![], other_params: Params::defaults() };
            run_b(&mut ctx, "put/delete on 3 same-length keys in one chain with traversals at arbitrary positions (live handle and its clone)", &bcfg, if thorough { 200.0 } else { 20.0 });
        }
        // key slot classes: a freed key slot of every class is reused under the iterator oracle
        if ctx.run.violations.is_empty() {
            crate::props_a::class_ladder(&mut ctx, "C04", crate::engine_a::O_ITER, 0, false, if thorough { 1 } else { 2 });
            if !thorough && ctx.run.violations.is_empty() {
                crate::props_a::class_ladder_keys(&mut ctx, "C04", crate::engine_a::O_ITER, 0, false, 1);
            }
        }
        // histories in which key records are relocated and chains re-linked (offsets crossing 16 KiB)
        let specs = vec![
            crate::props_c08::SeedSpec { file: "val", boundary: 16 * 1024, eps: 16, free_slots: 0 , val_pad: 0},
            crate::props_c08::SeedSpec { file: "key", boundary: 16 * 1024, eps: 16, free_slots: 2 , val_pad: 0},
            crate::props_c08::SeedSpec { file: "key", boundary: 16 * 1024, eps: 16, free_slots: 0 , val_pad: 0},
            crate::props_c08::SeedSpec { file: "both", boundary: 16 * 1024, eps: 16, free_slots: 2 , val_pad: 0},
        ];
        crate::props_c08::seeded_group(&mut ctx, "C04", crate::engine_a::O_ITER, 0, 2, vec![3, 200], &specs, 60_000, 10.0);
        // chain links of three bytes next to value offsets of two (key file beyond 192 KiB, freed slots behind a 1 200-byte value)
        let specs200 = vec![crate::props_c08::SeedSpec { file: "key", boundary: 200 * 1024, eps: 0, free_slots: 2, val_pad: 1201 }];
        crate::props_c08::seeded_group(&mut ctx, "C04", crate::engine_a::O_ITER, 0, 3, vec![3], &specs200, 30_000, 6.0);
        if thorough {
            for kt in [KtId::Str, KtId::U64, KtId::I64, KtId::Vu64] {
                let a = &crate::props_a::alphas_small()[0];
                let mut cfg = crate::props_a::make_cfg("C04", kt, 8, a, seed);
                cfg.oracles = crate::engine_a::O_ITER;
                let starts: Vec<crate::engine_a::Start> = crate::props_a::empty_start(&mut ctx, &cfg).into_iter().collect();
                crate::props_a::run_closure(&mut ctx, &format!("{} [{}]", a.label, kt.name()), &cfg, starts, 100_000, 30.0);
            }
        }
    }
    let rule = "exhaustive enumeration of table occupancy states (the iterator's scan depends only on table size, set of non-empty buckets and chain lengths): every power-of-two table size 1..65536 (requested as BucketsSize, as a non-power-of-two BucketsSize and as a Capacity that rounds to it); n<=16: all 2^n subsets in Gray-code order on one live map (so emptied-again buckets are on the path), n<=256 (1024 thorough): all patterns with <=2 occupied buckets and all dense-minus-one patterns, larger n: all singletons, all pairs over the boundary set, dense-minus-one at the boundary set; chains of 1 and 2 keys; on every pattern iter/iter_mut/keys/values/into_iter (by value, & and &mut): multiset = model, count = len(), size_hint exact before every step, three further next() give None; plus the same oracle on every state of image-graph closures (arbitrary histories) under table sizes 8,16,64,128,1024. states = patterns, transitions = traversals; every pattern is distinct by construction";
    ctx.run.add("iterator_patterns_and_traversals", (patterns + traversals) as i64);
    ctx.finish_model_checking(rule, &["patterns", "iterator_traversals"])
}

pub fn replay_c04(config: &[u8]) -> i32 {
    let mut io = WorkerIo::sink();
    let b = c04_job(&config[1..], &mut io);
    let mut r = Rd::new(&b);
    if r.u8() == 0 {
        println!("REPLAY: no violation reproduced ({} patterns)", r.u64());
        0
    } else {
        let key = r.string();
        let msg = r.string();
        println!("REPLAY VIOLATION [{key}]: {msg}");
        1
    }
}

// ---------------------------------------------------------------------------------------------

pub fn worker_job(kind: u8, payload: &[u8], io: &mut WorkerIo) -> Vec<u8> {
    match kind {
        JOB_D_C04 => c04_job(payload, io),
        _ => crate::props_e::worker_job(kind, payload, io),
    }
}

// helpers shared with props_e
pub fn small_val(i: u64) -> Vec<u8> {
    vec![(i % 251) as u8, (i >> 8) as u8, 0x5a]
}
pub fn _unused(_: &dyn Fn(&[u8]) -> String) {
    let _ = show;
    let _ = decoder::vu_len;
    let _ = absent_keys;
}
