//! Engine D sweeps: C09 (every length fits its slot), C10 (typed keys), C13 (signatures), C14 (bulk).
#![allow(dead_code)]

use crate::decoder;
use crate::pool::{JobResult, WorkerIo};
use crate::props_a::Ctx;
use crate::report::{Replay, Violation};
use crate::subject::*;
use crate::util::{show, Buf, Rd, SplitMix, J};
use abyssiniandb::filedb::FileDbMap;
use abyssiniandb::{DbI64, DbMap, DbU64, DbVu64, DbXxx, DbXxxBase};
use std::collections::BTreeMap;

pub const JOB_F_C09: u8 = 60;
pub const JOB_F_C10: u8 = 61;
pub const JOB_F_C13: u8 = 62;
pub const JOB_F_C14: u8 = 63;

fn pat(seed: u64, len: usize) -> Vec<u8> {
    crate::engine_a::value_bytes(seed, 3, 5, len)
}

fn result_ok(out: &mut Buf, evals: u64, nontrivial: u64) {
    out.u8(0).u64(evals).u64(nontrivial);
}
fn result_bad(out: &mut Buf, key: &str, msg: &str, evals: u64, case: &[u8]) {
    out.u8(1).str(key).str(msg).u64(evals).bytes(case);
}

// ---------------------------------------------------------------------------------------------
// C09 (b): end-to-end sweep between two sentinels

/// one length: sentinel, X(len), sentinel, then X overwritten with len+1 and len-1
fn c09_one(dir: &std::path::Path, mode: u8, len: usize, seed: u64) -> Result<u64, String> {
    clear_dir(dir);
    let is_key = mode != 0;
    // the key sweep runs on a one-bucket table: all records are in one chain, so a record that has to
    // move is also re-linked; mode 2: with `Auto` buffers (4 KiB chunks), so that records and their fields
    // straddle chunk boundaries of the key and value file already in small files
    let mut p = Params::buckets(if is_key { 1 } else { 8 });
    if mode == 2 {
        p.key = BufP::Auto;
        p.val = BufP::Auto;
    }
    let s1k = b"sentinel-1".to_vec();
    let s2k = b"sentinel-2".to_vec();
    let s1v = pat(seed ^ 1, 37);
    let s2v = pat(seed ^ 2, 53);
    let xk: Vec<u8> = if is_key { pat(seed ^ 3, len) } else { b"x-entry".to_vec() };
    let mut model: BTreeMap<Vec<u8>, Vec<u8>> = BTreeMap::new();
    let (db, mut m) = match open_map::<abyssiniandb::DbBytes>(dir, MAP_NAME, &p) {
        Out::Ok(x) => x,
        o => return Err(format!("open {}", o.failed().unwrap_or_default())),
    };
    let mut checks = 0u64;
    let mut put = |m: &mut FileDbMap<abyssiniandb::DbBytes>, model: &mut BTreeMap<Vec<u8>, Vec<u8>>, k: &[u8], v: Vec<u8>| -> Result<(), String> {
        let r = guard(|| m.put(k, &v));
        if r != Out::Ok(()) {
            return Err(format!("put of a {}-byte key with a {}-byte value {}", k.len(), v.len(), r.failed().unwrap_or_default()));
        }
        model.insert(k.to_vec(), v);
        Ok(())
    };
    let verify = |m: &mut FileDbMap<abyssiniandb::DbBytes>, model: &BTreeMap<Vec<u8>, Vec<u8>>, when: &str| -> Result<(), String> {
        for (k, v) in model {
            let r = guard(|| m.get(&k[..]));
            if r != Out::Ok(Some(v.clone())) {
                let got = match &r {
                    Out::Ok(Some(g)) => format!("{} bytes{}", g.len(), if g.len() == v.len() { " with different content" } else { "" }),
                    Out::Ok(None) => "None".into(),
                    o => o.failed().unwrap_or_default(),
                };
                return Err(format!("{when}: get of the {}-byte key returns {got} instead of the {}-byte value stored", k.len(), v.len()));
            }
        }
        Ok(())
    };
    if is_key {
        put(&mut m, &mut model, &s1k, s1v.clone())?;
        put(&mut m, &mut model, &xk, pat(seed ^ 4, 21))?;
        put(&mut m, &mut model, &s2k, s2v.clone())?;
        // a filler brings the end of the value file beyond 16 KiB: the overwrite below moves X's value
        // there, its offset needs one more byte and a key record that fills its slot has to move
        put(&mut m, &mut model, b"filler", pat(seed ^ 9, 17_000))?;
        verify(&mut m, &model, "after storing the entry between two sentinels")?;
        checks += 3;
        // overwrite the entry's value so that its key record is rewritten; delete and re-insert
        put(&mut m, &mut model, &xk, pat(seed ^ 5, 700))?;
        verify(&mut m, &model, "after overwriting the entry's value")?;
        let r = guard(|| m.delete(&xk[..]));
        if r != Out::Ok(model.remove(&xk)) {
            return Err(format!("delete of the {}-byte key gives a wrong result", xk.len()));
        }
        // a key one byte longer / shorter reuses or outgrows the freed slot
        for l2 in [len + 1, len.saturating_sub(1)] {
            let k2 = pat(seed ^ 6 ^ l2 as u64, l2);
            if k2 == s1k || k2 == s2k {
                continue;
            }
            put(&mut m, &mut model, &k2, pat(seed ^ 7, 9))?;
            verify(&mut m, &model, "after storing a key one byte longer/shorter in the freed slot")?;
            let r = guard(|| m.delete(&k2[..]));
            if r != Out::Ok(model.remove(&k2)) {
                return Err(format!("delete of the {}-byte key gives a wrong result", k2.len()));
            }
            checks += 3;
        }
        // the entry again, together with a key that extends it by one byte and one that is its prefix
        put(&mut m, &mut model, &xk, pat(seed ^ 10, 33))?;
        let mut longer = xk.clone();
        longer.push(0x55);
        put(&mut m, &mut model, &longer, pat(seed ^ 11, 17))?;
        if len >= 1 {
            let shorter = xk[..len - 1].to_vec();
            if shorter != s1k && shorter != s2k {
                put(&mut m, &mut model, &shorter, pat(seed ^ 12, 19))?;
            }
        }
        verify(&mut m, &model, "after storing the key together with its one-byte extension and its prefix")?;
        checks += 3;
    } else {
        put(&mut m, &mut model, &s1k, s1v.clone())?;
        put(&mut m, &mut model, &xk, pat(seed ^ 4, len))?;
        put(&mut m, &mut model, &s2k, s2v.clone())?;
        verify(&mut m, &model, "after storing the value between two sentinels")?;
        checks += 3;
        for l2 in [len + 1, len.saturating_sub(1), len] {
            put(&mut m, &mut model, &xk, pat(seed ^ 8 ^ l2 as u64, l2))?;
            verify(&mut m, &model, &format!("after overwriting the {len}-byte value with {l2} bytes"))?;
            checks += 3;
        }
        if (1000..=600_000).contains(&len) {
            // slots of 1024 bytes and more share one first-fit list: free a big slot, then a smaller one (now
            // the head), store a value that only fits the big one (taken from the middle of the list), then a
            // second one: each must get its own slot and all entries keep their bytes
            let big = len + 300;
            put(&mut m, &mut model, b"y-big", pat(seed ^ 20, big))?;
            put(&mut m, &mut model, b"z-small", pat(seed ^ 21, len))?;
            for k in [&b"y-big"[..], &b"z-small"[..]] {
                let r = guard(|| m.delete(k));
                if r != Out::Ok(model.remove(k)) {
                    return Err(format!("delete of a {len}-byte-class value gives a wrong result"));
                }
            }
            put(&mut m, &mut model, b"y2", pat(seed ^ 22, big))?;
            put(&mut m, &mut model, b"w2", pat(seed ^ 23, big))?;
            put(&mut m, &mut model, b"z2", pat(seed ^ 24, len))?;
            verify(&mut m, &model, &format!("after freeing a {big}-byte and a {len}-byte value and storing two {big}-byte values and a {len}-byte value"))?;
            checks += 5;
        }
    }
    let _ = guard_plain(move || {
        drop(m);
        drop(db);
    });
    // the files: tiling (no overlap), zero padding (no overrun), contents
    let img = Image::read(dir, MAP_NAME).map_err(|e| format!("files unreadable: {e}"))?;
    let d = decoder::decode(&img.htx, &img.key, &img.val);
    if let Some((c, msg)) = d.errors.first() {
        return Err(format!("after close the files do not decode (clause {}): {msg}", c.name()));
    }
    if d.contents != model {
        return Err("after close the decoded contents differ from what was stored".into());
    }
    // re-open
    let (db, mut m) = match open_map::<abyssiniandb::DbBytes>(dir, MAP_NAME, &p) {
        Out::Ok(x) => x,
        o => return Err(format!("re-open {}", o.failed().unwrap_or_default())),
    };
    verify(&mut m, &model, "after re-open")?;
    let _ = guard_plain(move || {
        drop(m);
        drop(db);
    });
    Ok(checks + 3)
}

fn c09_job(payload: &[u8], io: &mut WorkerIo) -> Vec<u8> {
    let mut r = Rd::new(payload);
    let mode = r.u8();
    let is_key = mode != 0;
    let seed = r.u64();
    let n = r.u32();
    let lens: Vec<u64> = (0..n).map(|_| r.u64()).collect();
    let scratch = Scratch::new("c09");
    let dir = scratch.fresh("d");
    let mut out = Buf::new();
    let mut evals = 0u64;
    for l in &lens {
        io.progress(*l);
        match c09_one(&dir, mode, *l as usize, seed) {
            Ok(c) => evals += c,
            Err(e) => {
                let what = if is_key { "key" } else { "value" };
                let mut case = Buf::new();
                case.u8(mode).u64(seed).u32(1).u64(*l);
                result_bad(&mut out, &format!("e2e:{what}:{}", class_of(*l)), &format!("{what} length {l}{}: {e}", if mode == 2 { " (4 KiB buffer chunks)" } else { "" }), evals, &case.0);
                return out.0;
            }
        }
    }
    result_ok(&mut out, evals, lens.len() as u64);
    out.0
}

/// the store / overwrite / read-back / decode cycle of C09's part (b) for every value length and key
/// length within a few bytes of a slot class edge (all 16 classes and the first sizes of the large class),
/// reported under `prop`: records that fill a slot to the byte, or miss it by one or two
pub fn edge_sweep(ctx: &mut Ctx, prop: &str) {
    let seed = ctx.seed;
    let mut edges: Vec<u64> = decoder::CLASSES.iter().map(|c| *c as u64).collect();
    edges.extend([1152u64, 1280, 2048]);
    let mut val_lens: Vec<u64> = Vec::new();
    let mut key_lens: Vec<u64> = Vec::new();
    for c in edges {
        val_lens.extend(c.saturating_sub(8)..=c + 2);
        key_lens.extend(c.saturating_sub(12)..=c + 2);
    }
    val_lens.sort();
    val_lens.dedup();
    key_lens.sort();
    key_lens.dedup();
    let mut jobs: Vec<Vec<u8>> = Vec::new();
    for (is_key, lens) in [(false, &val_lens), (true, &key_lens)] {
        for c in lens.chunks(12) {
            let mut b = Buf::new();
            b.u8(JOB_F_C09).u8(is_key as u8).u64(seed).u32(c.len() as u32);
            for l in c {
                b.u64(*l);
            }
            jobs.push(b.0);
        }
    }
    ctx.pool.reinit(vec![]);
    let results = ctx.pool.map(&jobs, |i| i);
    let mut done = 0u64;
    for (i, res) in results.into_iter().enumerate() {
        match res {
            JobResult::Done(b) => {
                let mut r = Rd::new(&b);
                if r.u8() == 0 {
                    let _ = r.u64();
                    done += r.u64();
                } else {
                    let key = r.string();
                    let msg = r.string();
                    let _ = r.u64();
                    let case = r.vec();
                    ctx.run.violation(Violation { prop: prop.to_string(), key: format!("edge-sweep:{key}"), message: msg.clone(), replay: Replay { engine: "C09b".into(), config: vec![], case, story: vec!["fresh map: put sentinel-1, put X, put sentinel-2, overwrite X one byte longer / shorter; get all three after every step; close; decode; re-open".into(), msg] } });
                }
            }
            JobResult::Crashed { progress, how } => {
                let l = progress.unwrap_or(0);
                let is_key = jobs[i][1] == 1;
                let mut case = Buf::new();
                case.u8(is_key as u8).u64(seed).u32(1).u64(l);
                let msg = format!("{} length {l}: the store/read-back cycle does not return normally: {how}", if is_key { "key" } else { "value" });
                ctx.run.violation(Violation { prop: prop.to_string(), key: format!("edge-sweep:{}", if how.contains("hang") { "hang" } else { "abort" }), message: msg.clone(), replay: Replay { engine: "C09b".into(), config: vec![], case: case.0, story: vec![msg] } });
            }
        }
    }
    eprintln!("[{prop}] edge sweep: {} value lengths and {} key lengths around the slot class edges, {done} cycles", val_lens.len(), key_lens.len());
    ctx.run.add("edge_sweep_lengths", done as i64);
    ctx.states += done;
    ctx.transitions += done * 8;
    ctx.runs.push(J::obj(vec![("label", J::s("edge sweep: store / overwrite one byte longer and shorter / read back / decode for every value and key length within a few bytes of a slot class edge")), ("value_lengths", J::Int(val_lens.len() as i64)), ("key_lengths", J::Int(key_lens.len() as i64))]));
}

fn class_of(l: u64) -> String {
    if l <= 4200 {
        "small".into()
    } else {
        format!("near-{}", (l + 2048) / 4096 * 4096)
    }
}

pub fn c09(tier: &str, seed: u64) -> i32 {
    let mut ctx = Ctx::new("C09", tier, seed, "exploration");
    let thorough = ctx.thorough();
    ctx.pool.reinit(vec![]);
    ctx.pool.watchdog = std::time::Duration::from_secs(60);
    // (a) exhaustive slot arithmetic through the layout probe (own package, feature abyssiniandb_verif)
    let probe = crate::report::verif_root().join("harness-probe");
    let t0 = ctx.run.elapsed();
    let build = std::process::Command::new("cargo").args(["build", "--offline", "--release"]).current_dir(&probe).env("CARGO_NET_OFFLINE", "true").output();
    let mut probe_ok = false;
    match build {
        Ok(o) if o.status.success() => {
            let run = std::process::Command::new(probe.join("target/release/abyv-probe")).output();
            match run {
                Ok(o) if o.status.success() => {
                    probe_ok = true;
                    let txt = String::from_utf8_lossy(&o.stdout).to_string();
                    for line in txt.lines() {
                        if let Some((k, v)) = line.split_once('=') {
                            if k == "violation" {
                                let (key, msg) = v.split_once(' ').unwrap_or((v, v));
                                let key: String = key.split(':').enumerate().filter(|(i, _)| *i != 1).map(|(_, s)| s).collect::<Vec<_>>().join(":");
                                ctx.run.violation(Violation { prop: "C09".into(), key: format!("arith:{key}"), message: format!("slot arithmetic: {msg}"), replay: Replay { engine: "C09a".into(), config: vec![], case: vec![], story: vec![msg.to_string(), "replay: runs the arithmetic sweep again (abyv-probe)".into()] } });
                            } else if let Ok(n) = v.parse::<i64>() {
                                ctx.run.add(&format!("arith_{k}"), n);
                            }
                        }
                    }
                }
                Ok(o) => crate::report::machinery_failure(&format!("abyv-probe failed: {}", String::from_utf8_lossy(&o.stderr))),
                Err(e) => crate::report::machinery_failure(&format!("abyv-probe cannot run: {e}")),
            }
        }
        Ok(o) => crate::report::machinery_failure(&format!("harness-probe does not build against /repo with the hook feature:\n{}", String::from_utf8_lossy(&o.stderr).lines().rev().take(30).collect::<Vec<_>>().join("\n"))),
        Err(e) => crate::report::machinery_failure(&format!("cargo: {e}")),
    }
    eprintln!("[C09] arithmetic sweep: values={} key evaluations={} ok={probe_ok} {:.1}s", ctx.run.get("arith_value_lengths"), ctx.run.get("arith_key_evaluations"), ctx.run.elapsed() - t0);
    // (b) end-to-end
    let mut val_lens: Vec<u64> = (0..=if thorough { 20_000 } else { 1100 }).collect();
    for c in [4096u64, 131072, 1048576] {
        let w = if thorough { 40 } else { 6 };
        val_lens.extend((c - w)..=(c + w));
    }
    // the value's own length field and the slot-size field change width around 16 KiB and 2 MiB
    for c in [16384u64, 2097152] {
        let w = if thorough { 24 } else { 3 };
        val_lens.extend((c - w - 8)..=(c + w));
    }
    if thorough {
        val_lens.extend((16 * 1024 * 1024 - 3)..=(16 * 1024 * 1024));
        val_lens.extend([8192 - 1, 8192, 65536, 65537, 262144 - 8, 262144]);
    }
    let mut key_lens: Vec<u64> = (0..=if thorough { 20_000 } else { 1100 }).collect();
    key_lens.extend((65536 - if thorough { 40 } else { 4 })..=65536);
    key_lens.extend([4095, 4096, 4097, 16383, 16384, 32768]);
    // a key record of 128 KiB (three-byte size field); thorough: also a key of 2 MiB (four-byte length field)
    key_lens.extend((131072 - if thorough { 40 } else { 14 })..=(131072 + if thorough { 8 } else { 2 }));
    if thorough {
        key_lens.extend((2097152 - 12)..=(2097152 + 2));
    }
    // lengths that put the trailing offset fields of the swept record across the 128 KiB buffer-chunk mark
    key_lens.extend(130_848..=130_872);
    let mut jobs: Vec<Vec<u8>> = Vec::new();
    let mut mk = |is_key: bool, lens: &[u64], per: usize| {
        for c in lens.chunks(per) {
            let mut b = Buf::new();
            b.u8(JOB_F_C09).u8(is_key as u8).u64(seed).u32(c.len() as u32);
            for l in c {
                b.u64(*l);
            }
            jobs.push(b.0);
        }
    };
    mk(false, &val_lens, 24);
    mk(true, &key_lens, 24);
    // the key sweep once more with 4 KiB buffer chunks (lengths up to 4300 and around 8 KiB)
    let mut small_chunk_lens: Vec<u64> = (0..=if thorough { 4300 } else { 1100 }).collect();
    small_chunk_lens.extend((4096 - 40)..=(4096 + 8));
    small_chunk_lens.extend((8192 - 24)..=(8192 + 4));
    // lengths that put the two trailing offset fields of the swept record across the 4 KiB and 8 KiB marks
    small_chunk_lens.extend(3860..=3900);
    small_chunk_lens.extend(7956..=7996);
    small_chunk_lens.sort();
    small_chunk_lens.dedup();
    for c in small_chunk_lens.chunks(24) {
        let mut b = Buf::new();
        b.u8(JOB_F_C09).u8(2).u64(seed).u32(c.len() as u32);
        for l in c {
            b.u64(*l);
        }
        jobs.push(b.0);
    }
    let t1 = ctx.run.elapsed();
    let results = ctx.pool.map(&jobs, |i| i);
    let mut evals = 0u64;
    let mut lens_done = 0u64;
    for (i, res) in results.into_iter().enumerate() {
        match res {
            JobResult::Done(b) => {
                let mut r = Rd::new(&b);
                if r.u8() == 0 {
                    evals += r.u64();
                    lens_done += r.u64();
                } else {
                    let key = r.string();
                    let msg = r.string();
                    evals += r.u64();
                    let case = r.vec();
                    ctx.run.violation(Violation { prop: "C09".into(), key, message: msg.clone(), replay: Replay { engine: "C09b".into(), config: vec![], case, story: vec!["fresh 8-bucket map: put sentinel-1, put X, put sentinel-2, overwrite X one byte longer / shorter; get all three after every step; close; decode; re-open".into(), msg] } });
                }
            }
            JobResult::Crashed { progress, how } => {
                let kind = if how.contains("hang") { "hang" } else { "abort" };
                let l = progress.unwrap_or(0);
                let mode = jobs[i][1];
                let is_key = mode != 0;
                let mut case = Buf::new();
                case.u8(mode).u64(seed).u32(1).u64(l);
                let msg = format!("{} length {l}: the store/read-back cycle does not return normally: {how}", if is_key { "key" } else { "value" });
                ctx.run.violation(Violation { prop: "C09".into(), key: format!("e2e:{kind}:{}", class_of(l)), message: msg.clone(), replay: Replay { engine: "C09b".into(), config: vec![], case: case.0, story: vec![msg] } });
            }
        }
    }
    eprintln!("[C09] end-to-end: lengths={} checks={} {:.1}s", lens_done, evals, ctx.run.elapsed() - t1);
    // (c) records that fill their slot exactly while an offset in them grows by a byte: histories from
    // seeded images whose key / value file ends just below 16 KiB (built by the real code), two colliding keys
    // of 11 and 10 bytes (records of exactly 16 bytes); every entry must stay readable and inside its slot
    if ctx.run.violations.is_empty() {
        use crate::decoder::Clause;
        let clauses = crate::engine_a::clause_mask(&[Clause::Overflow, Clause::Tiling, Clause::ValueRef, Clause::Chain]);
        let specs = vec![
            crate::props_c08::SeedSpec { file: "key", boundary: 16 * 1024, eps: 16, free_slots: 2, val_pad: 0 },
            crate::props_c08::SeedSpec { file: "val", boundary: 16 * 1024, eps: 16, free_slots: 0, val_pad: 0 },
            crate::props_c08::SeedSpec { file: "val", boundary: 16 * 1024, eps: 16, free_slots: 2, val_pad: 0 },
        ];
        crate::props_c08::seeded_group(&mut ctx, "C09", crate::engine_a::O_API | crate::engine_a::O_DEC | crate::engine_a::O_DEC_CONTENTS, clauses, 2, vec![3, 200], &specs, 30_000, 6.0);
        if ctx.run.violations.is_empty() {
            // a freed key slot of every class with a live record behind it, then a key of the next class
            crate::props_a::class_ladder_keys(&mut ctx, "C09", crate::engine_a::O_API | crate::engine_a::O_DEC | crate::engine_a::O_DEC_CONTENTS, clauses, false, 1);
        }
        if ctx.run.violations.is_empty() {
            // chains of three such keys (capped): a record that moves into a freed slot below its old place
            crate::props_a::three_key_seeds(&mut ctx, "C09", crate::engine_a::O_API | crate::engine_a::O_DEC | crate::engine_a::O_DEC_CONTENTS, clauses, 3.0);
        }
        ctx.run.add("seeded_closure_states", ctx.states as i64);
        ctx.run.add("seeded_closure_transitions", ctx.transitions as i64);
        ctx.pool.reinit(vec![]);
    }
    let total = ctx.run.get("arith_value_lengths") + ctx.run.get("arith_key_evaluations") + evals as i64;
    ctx.run.set("evaluations", J::Int(total));
    ctx.run.set("distinct_nontrivial", J::Int(ctx.run.get("arith_tight_fits") + lens_done as i64));
    ctx.run.set("rule", J::s("(a) complete enumeration of the slot arithmetic through the layout-probe hook (the crate's own encoded_piece_size + roundup): every value length 0..=2^24 and every key length 0..=2^16 (plus 273 lengths each around 2^17, 2^20, 2^21, 2^24) x every ordered pair of (value offset, next offset) from the set of all vu64 width boundaries +-8 for the raw and the /8 encoding; the chosen slot must be a legal class, a multiple of 8 and >= the independently computed exact record length (own vu64 length function, size field computed from the chosen slot). (b) end-to-end on the real write path for every length of the listed ranges: sentinel, X(L), sentinel, X overwritten with L+1, L-1, L, and for L >= 1000 a free-and-reuse round on the shared first-fit list (free a bigger and a smaller large slot, store two big values and a small one) (values) / deleted and re-inserted one byte longer and shorter (keys); all three entries read back byte for byte after every step; after close the files must tile without overlap with zero padding (independent decoder) and re-open. (c) explicit-state closures (engine A) from two seeded images whose key resp. value file ends 16 bytes below 16 KiB, over two colliding keys whose records fill a 16-byte slot exactly: an offset inside such a record grows by a byte, the record must move and every entry stay readable and inside its slot. non-trivial = arithmetic cases in which the record fills its slot to within 7 bytes + end-to-end lengths"));
    ctx.run.set("end_to_end", J::obj(vec![("value_lengths", J::Int(val_lens.len() as i64)), ("key_lengths", J::Int(key_lens.len() as i64)), ("checks", J::Int(evals as i64))]));
    ctx.run.sample(J::s("value length 16777216: slot chosen by the crate vs exact record length 1+4+16777216"));
    ctx.run.sample(J::s("key length 65536 x value offset 2^21-8 x next offset 8*2^14"));
    ctx.run.sample(J::s("end-to-end: value lengths 1022,1023,1024 between two sentinels, overwritten +-1"));
    ctx.run.exhaustive = probe_ok && ctx.all_closed;
    if !ctx.all_closed {
        ctx.run.notes.push("parts (a) and (b) are complete enumerations; the three-key seeded closures of part (c) hit their cap (completed depth in the runs above)".into());
    }
    ctx.run.assumptions.push("the hook calls the same encoded_piece_size()/roundup() the write path calls (it only adds code; (b) binds it to what the write path really emits)".into());
    let run = ctx.run;
    drop(ctx.pool);
    run.finish()
}

pub fn replay_c09(engine: &str, case: &[u8]) -> i32 {
    if engine == "C09a" {
        let probe = crate::report::verif_root().join("harness-probe/target/release/abyv-probe");
        let o = std::process::Command::new(probe).output();
        match o {
            Ok(o) => {
                let t = String::from_utf8_lossy(&o.stdout).to_string();
                print!("{t}");
                if t.contains("violation=") {
                    println!("REPLAY VIOLATION");
                    return 1;
                }
                println!("REPLAY: no violation reproduced");
                0
            }
            Err(e) => {
                eprintln!("{e}");
                2
            }
        }
    } else {
        let mut io = WorkerIo::sink();
        let b = c09_job(case, &mut io);
        let mut r = Rd::new(&b);
        if r.u8() == 0 {
            println!("REPLAY: no violation reproduced");
            0
        } else {
            let key = r.string();
            let msg = r.string();
            println!("REPLAY VIOLATION [{key}]: {msg}");
            1
        }
    }
}

// ---------------------------------------------------------------------------------------------
// C10: typed keys

pub fn int_domain(full: bool) -> Vec<u64> {
    let mut v: Vec<u64> = Vec::new();
    // <= 2 bits set and their complements
    for a in 0..64 {
        v.push(1u64 << a);
        v.push(!(1u64 << a));
        for b in (a + 1)..64 {
            let x = (1u64 << a) | (1u64 << b);
            v.push(x);
            v.push(!x);
        }
    }
    v.extend([0, u64::MAX]);
    // 2^k +- 1 (every bit width), 2^(7k) +- 1 (every vu64 length step)
    for k in 0..64 {
        let p = 1u64 << k;
        v.extend([p.wrapping_sub(1), p, p.wrapping_add(1)]);
        v.extend([(p as i64).wrapping_neg() as u64, ((p as i64).wrapping_neg() - 1) as u64, ((p as i64).wrapping_neg() + 1) as u64]);
    }
    v.extend([i64::MAX as u64, i64::MIN as u64, (i64::MIN + 1) as u64, (i64::MAX - 1) as u64]);
    if full {
        // every 16-bit value at each of the 8 byte positions (and straddling bytes)
        for pos in 0..8 {
            for x in 0..=0xFFFFu64 {
                v.push(x.rotate_left(8 * pos));
            }
        }
    } else {
        for pos in 0..8 {
            for x in 0..=0xFFu64 {
                v.push(x << (8 * pos));
                v.push((x << (8 * pos)) | 1);
            }
        }
    }
    v.sort();
    v.dedup();
    v
}

pub fn boundary_ints() -> Vec<u64> {
    let mut v: Vec<u64> = vec![0, 1, 2, u64::MAX, u64::MAX - 1, i64::MAX as u64, i64::MIN as u64];
    for k in 1..=9 {
        if 7 * k < 64 {
            let p = 1u64 << (7 * k);
            v.extend([p - 1, p, p + 1]);
        }
    }
    for k in [8, 15, 16, 24, 31, 32, 33, 40, 48, 55, 56, 57, 63] {
        let p = 1u64 << k;
        v.extend([p - 1, p, p.wrapping_add(1), (p as i64).wrapping_neg() as u64]);
    }
    for pos in 0..8 {
        v.push(0xA5u64 << (8 * pos));
        v.push(0x80u64 << (8 * pos));
        v.push(0xFFu64 << (8 * pos));
    }
    v.sort();
    v.dedup();
    v
}

trait IntKey: Kt {
    fn mk(x: u64) -> Self;
    fn mk_ref(x: &u64) -> Self;
    fn back(&self) -> u64;
    fn back_val(self) -> u64;
}
impl IntKey for DbU64 {
    fn mk(x: u64) -> Self {
        DbU64::from(x)
    }
    fn mk_ref(x: &u64) -> Self {
        DbU64::from(x)
    }
    fn back(&self) -> u64 {
        u64::from(self)
    }
    fn back_val(self) -> u64 {
        u64::from(self)
    }
}
impl IntKey for DbVu64 {
    fn mk(x: u64) -> Self {
        DbVu64::from(x)
    }
    fn mk_ref(x: &u64) -> Self {
        DbVu64::from(x)
    }
    fn back(&self) -> u64 {
        u64::from(self)
    }
    fn back_val(self) -> u64 {
        u64::from(self)
    }
}
impl IntKey for DbI64 {
    fn mk(x: u64) -> Self {
        DbI64::from(x as i64)
    }
    fn mk_ref(x: &u64) -> Self {
        let y = *x as i64;
        DbI64::from(&y)
    }
    fn back(&self) -> u64 {
        i64::from(self) as u64
    }
    fn back_val(self) -> u64 {
        i64::from(self) as u64
    }
}

fn show_int(kt: KtId, x: u64) -> String {
    if kt == KtId::I64 {
        format!("{}", x as i64)
    } else {
        format!("{x}")
    }
}

fn c10_conversions<T: IntKey>(dom: &[u64], evals: &mut u64) -> Result<(), (String, String)> {
    let kt = T::ID;
    let mut enc: Vec<(Vec<u8>, u64)> = Vec::with_capacity(dom.len());
    for &x in dom {
        *evals += 1;
        let r = guard_plain(|| {
            let a = T::mk(x);
            let b = T::mk_ref(&x);
            let back_ref = a.back();
            let bytes = a.as_bytes().to_vec();
            let same = b.as_bytes() == &bytes[..] && a == b;
            let ha = a.hash_value();
            let hb = b.hash_value();
            let hc = T::from_bytes(&bytes).hash_value();
            let back_val = a.back_val();
            (bytes, same, back_ref, back_val, ha, hb, hc)
        });
        match r {
            Out::Ok((bytes, same, back_ref, back_val, ha, hb, hc)) => {
                if !same {
                    return Err(("convert:value-vs-reference".into(), format!("{}: From<{x}> by value and by reference give different keys", kt.name())));
                }
                if back_ref != x || back_val != x {
                    return Err(("convert:round-trip".into(), format!("{}: {} converts to key {} and back to {} (by reference) / {} (by value)", kt.name(), show_int(kt, x), show(&bytes), show_int(kt, back_ref), show_int(kt, back_val))));
                }
                if ha != hb || ha != hc {
                    return Err(("convert:hash".into(), format!("{}: equal keys for {} have different placement hashes", kt.name(), show_int(kt, x))));
                }
                if ha != decoder::place_hash(&bytes) {
                    return Err(("convert:hash-doc".into(), format!("{}: placement hash of key {} is not the documented function of its bytes", kt.name(), show(&bytes))));
                }
                enc.push((bytes, x));
            }
            o => return Err((format!("convert:{}", crate::engine_a::fail_key(&o)), format!("{}: converting {} {}", kt.name(), show_int(kt, x), o.failed().unwrap_or_default()))),
        }
    }
    enc.sort();
    for w in enc.windows(2) {
        if w[0].0 == w[1].0 && w[0].1 != w[1].1 {
            return Err(("convert:collision".into(), format!("{}: the different integers {} and {} convert to the same key {}", kt.name(), show_int(kt, w[0].1), show_int(kt, w[1].1), show(&w[0].0))));
        }
    }
    // cmp_u8 says Equal exactly for equal integers
    let b = boundary_ints();
    let keys: Vec<T> = b.iter().map(|x| T::mk(*x)).collect();
    for (i, ki) in keys.iter().enumerate() {
        for (j, kj) in keys.iter().enumerate() {
            *evals += 1;
            let r = guard_plain(|| ki.cmp_u8(kj.as_bytes()) == std::cmp::Ordering::Equal);
            match r {
                Out::Ok(eq) => {
                    if eq != (i == j) {
                        return Err(("convert:cmp".into(), format!("{}: comparing the key of {} with the stored bytes of {} says {}", kt.name(), show_int(kt, b[i]), show_int(kt, b[j]), if eq { "equal" } else { "different" })));
                    }
                }
                o => return Err(("convert:cmp-panic".into(), format!("{}: comparing keys {}", kt.name(), o.failed().unwrap_or_default()))),
            }
        }
    }
    Ok(())
}

/// thorough tier: the x-th member of range `r` (four ranges of 2^32 integers each)
fn c10_range_member(r: u8, i: u64) -> u64 {
    match r {
        0 => i,
        1 => (1u64 << 63).wrapping_sub(1 << 31).wrapping_add(i),
        2 => (0u64).wrapping_sub(1 << 32).wrapping_add(i),
        _ => i.wrapping_mul(0x9E37_79B9_7F4A_7C15),
    }
}
const C10_RANGES: [&str; 4] = ["0 .. 2^32", "2^63-2^31 .. 2^63+2^31 (the i64 sign change)", "2^64-2^32 .. 2^64 (the small negative i64)", "i * 0x9E3779B97F4A7C15 mod 2^64 for i < 2^32 (all byte positions and all vu64 lengths)"];
const C10_CHUNK: u64 = 1 << 24;

fn c10_range_one<T: IntKey>(x: u64) -> Option<String> {
    let a = T::mk(x);
    let b = T::mk_ref(&x);
    if a.as_bytes() != b.as_bytes() {
        return Some("by value and by reference give different keys".into());
    }
    if a.back() != x {
        return Some(format!("converts back (by reference) to {}", show_int(T::ID, a.back())));
    }
    let c = T::from_bytes(a.as_bytes());
    let y = c.back_val();
    if y != x {
        return Some(format!("its stored bytes {} convert back to {}", show(a.as_bytes()), show_int(T::ID, y)));
    }
    None
}

fn c10_range<T: IntKey>(r: u8, chunk: u64, evals: &mut u64) -> Result<(), (String, String)> {
    let lo = chunk * C10_CHUNK;
    let mut i = lo;
    while i < lo + C10_CHUNK {
        let hi = (i + 4096).min(lo + C10_CHUNK);
        let res = guard_plain(|| {
            for j in i..hi {
                let x = c10_range_member(r, j);
                if let Some(why) = c10_range_one::<T>(x) {
                    return Some((x, why));
                }
            }
            None
        });
        *evals += hi - i;
        match res {
            Out::Ok(None) => {}
            Out::Ok(Some((x, why))) => return Err(("convert:round-trip".into(), format!("{}: {} {why}", T::ID.name(), show_int(T::ID, x)))),
            o => {
                // find the member that does not return
                for j in i..hi {
                    let x = c10_range_member(r, j);
                    if let Some(f) = guard_plain(|| c10_range_one::<T>(x)).failed() {
                        return Err((format!("convert:{}", crate::engine_a::fail_key(&o)), format!("{}: converting {} {f}", T::ID.name(), show_int(T::ID, x))));
                    }
                }
                return Err((format!("convert:{}", crate::engine_a::fail_key(&o)), format!("{}: converting a block of range {} {}", T::ID.name(), C10_RANGES[r as usize], o.failed().unwrap_or_default())));
            }
        }
        i = hi;
    }
    Ok(())
}

fn c10_map_level<T: IntKey>(dir: &std::path::Path, evals: &mut u64) -> Result<(), (String, String)>
where
    T: for<'a> From<&'a T>,
{
    // once on a 64-bucket table and once with all integers in one chain (the stored-key comparison decides every lookup)
    c10_map_level_n::<T>(dir, 64, evals)?;
    c10_map_level_n::<T>(dir, 1, evals)
}

fn c10_map_level_n<T: IntKey>(dir: &std::path::Path, buckets: u64, evals: &mut u64) -> Result<(), (String, String)>
where
    T: for<'a> From<&'a T>,
{
    let kt = T::ID;
    clear_dir(dir);
    let b = boundary_ints();
    let p = Params::buckets(buckets);
    let (mut db, mut m) = match open_map::<T>(dir, MAP_NAME, &p) {
        Out::Ok(x) => x,
        o => return Err(("map:open".into(), format!("open {}", o.failed().unwrap_or_default()))),
    };
    let val = |x: u64| -> Vec<u8> { format!("v{x:x}").into_bytes() };
    let mut model: BTreeMap<u64, Vec<u8>> = BTreeMap::new();
    for &x in &b {
        *evals += 1;
        let k = T::mk(x);
        let v = val(x);
        let r = guard(|| m.put(&k, &v));
        if r != Out::Ok(()) {
            return Err((format!("map:put:{}", crate::engine_a::fail_key(&r)), format!("{}: put({}) {}", kt.name(), show_int(kt, x), r.failed().unwrap_or_default())));
        }
        model.insert(x, v);
        if guard(|| m.len()) != Out::Ok(model.len() as u64) {
            return Err(("map:len".into(), format!("{}: after put({}) len() is not {} (two integers address the same entry, or an entry is missing)", kt.name(), show_int(kt, x), model.len())));
        }
    }
    for round in 0..2 {
        for &x in &b {
            *evals += 1;
            let k = T::mk_ref(&x);
            let r = guard(|| m.get(&k));
            if r != Out::Ok(model.get(&x).cloned()) {
                return Err(("map:get".into(), format!("{}: get({}) gives {:?} instead of {:?}", kt.name(), show_int(kt, x), r, model.get(&x).map(|v| show(v)))));
            }
        }
        // equal integers address the same entry also inside one bulk lookup: x, y, x, x, y for neighbours x, y
        for w in b.windows(2).step_by(7) {
            *evals += 1;
            let (kx, ky) = (T::mk_ref(&w[0]), T::mk_ref(&w[1]));
            let batch = [&kx, &ky, &kx, &kx, &ky];
            let exp: Vec<Option<Vec<u8>>> = [w[0], w[1], w[0], w[0], w[1]].iter().map(|x| model.get(x).cloned()).collect();
            let r = guard(|| m.bulk_get(&batch));
            if r != Out::Ok(exp) {
                return Err(("map:bulk_get".into(), format!("{}: bulk_get of [{x}, {y}, {x}, {x}, {y}] does not answer each position like get", kt.name(), x = show_int(kt, w[0]), y = show_int(kt, w[1]))));
            }
        }
        if round == 1 {
            // close and re-open under another table parameter (the stored table size decides): every integer still addresses its entry
            let _ = guard_plain(move || {
                drop(m);
                drop(db);
            });
            let other = Params::buckets(if buckets == 64 { 1024 } else { 8 });
            let (db2, m2) = match open_map::<T>(dir, MAP_NAME, &other) {
                Out::Ok(x) => x,
                o => return Err(("map:reopen".into(), format!("re-open {}", o.failed().unwrap_or_default()))),
            };
            db = db2;
            m = m2;
            for &x in &b {
                *evals += 1;
                let k = T::mk_ref(&x);
                let r = guard(|| m.get(&k));
                if r != Out::Ok(model.get(&x).cloned()) {
                    return Err(("map:get-after-reopen".into(), format!("{}: after a re-open with {} get({}) gives {:?} instead of {:?}", kt.name(), other.ht.label(), show_int(kt, x), r, model.get(&x).map(|v| show(v)))));
                }
            }
        }
        // iteration: keys convert back to the integers that were put
        match guard_plain(|| m.iter().map(|(k, v)| (k.back(), v)).collect::<Vec<_>>()) {
            Out::Ok(mut items) => {
                items.sort();
                let exp: Vec<(u64, Vec<u8>)> = model.iter().map(|(k, v)| (*k, v.clone())).collect();
                if items != exp {
                    let missing = exp.iter().find(|e| !items.contains(e)).map(|e| show_int(kt, e.0)).unwrap_or_default();
                    return Err(("map:iter".into(), format!("{}: keys returned by iteration do not convert back to the integers that were put (e.g. {missing})", kt.name())));
                }
            }
            o => return Err(("map:iter-panic".into(), format!("{}: iteration {}", kt.name(), o.failed().unwrap_or_default()))),
        }
        match guard_plain(|| m.keys().map(|k| k.back_val()).collect::<Vec<_>>()) {
            Out::Ok(mut ks) => {
                ks.sort();
                let exp: Vec<u64> = model.keys().copied().collect();
                if ks != exp {
                    return Err(("map:keys".into(), format!("{}: keys() do not convert back to the integers that were put", kt.name())));
                }
            }
            o => return Err(("map:keys-panic".into(), format!("{}: keys() {}", kt.name(), o.failed().unwrap_or_default()))),
        }
        if round == 0 {
            // delete every third integer, the others must stay
            for (i, &x) in b.iter().enumerate() {
                if i % 3 == 0 {
                    let k = T::mk(x);
                    let r = guard(|| m.delete(&k));
                    if r != Out::Ok(model.remove(&x)) {
                        return Err(("map:delete".into(), format!("{}: delete({}) gives {:?}", kt.name(), show_int(kt, x), r)));
                    }
                }
            }
        }
    }
    let _ = guard_plain(move || {
        drop(m);
        drop(db);
    });
    Ok(())
}

fn byte_key_set() -> Vec<Vec<u8>> {
    let mut v: Vec<Vec<u8>> = vec![vec![], b"a".to_vec(), b"ab".to_vec(), b"a\0".to_vec(), b"a\0b".to_vec(), vec![0xFF], vec![0xFF, 0xFE], b"abc".to_vec(), b"ab\0".to_vec(), vec![0], vec![0, 0], vec![0, 0, 0], b"A".to_vec(), vec![0xC3, 0x28], vec![0xE2, 0x82], "é".as_bytes().to_vec(), "e\u{301}".as_bytes().to_vec()];
    for a in [0x00u8, b'a', 0xFF] {
        v.push(vec![a]);
        for b in [0x00u8, b'a', 0xFF] {
            v.push(vec![a, b]);
        }
    }
    // several byte strings that are not valid UTF-8 and whose lossy decodings coincide (and the replacement character itself)
    v.push(vec![0xFE]);
    v.push(vec![0x80]);
    v.push("\u{FFFD}".as_bytes().to_vec());
    v.push(vec![b'x', 0xFF]);
    v.push(vec![b'x', 0xFE]);
    v.push(vec![b'k'; 127]);
    v.push(vec![b'k'; 128]);
    v.push(vec![b'k'; 129]);
    v.sort();
    v.dedup();
    v
}

/// every way the crate offers to make a key of type $t from the bytes $b: (name, the key)
macro_rules! conv_family {
    ($t:ty, $b:expr) => {{
        let mut v = conv_family!($t, $b, nostr);
        let b: &[u8] = $b;
        if let Ok(st) = std::str::from_utf8(b) {
            v.push(("From<&str>", <$t>::from(st)));
            v.push(("From<String>", <$t>::from(st.to_string())));
            v.push(("From<&String>", <$t>::from(&st.to_string())));
        }
        v
    }};
    ($t:ty, $b:expr, nostr) => {{
        let b: &[u8] = $b;
        let mut v: Vec<(&'static str, $t)> = Vec::new();
        v.push(("From<&[u8]>", <$t>::from(b)));
        v.push(("From<Vec<u8>>", <$t>::from(b.to_vec())));
        v.push(("From<Self>", <$t>::from(<$t>::from(b))));
        v.push(("From<&Self>", <$t>::from(&<$t>::from(b))));
        macro_rules! arr {
            ($n:literal) => {
                if b.len() == $n {
                    let a: [u8; $n] = b.try_into().unwrap();
                    v.push(("From<&[u8; N]>", <$t>::from(&a)));
                }
            };
        }
        arr!(0);
        arr!(1);
        arr!(2);
        arr!(3);
        arr!(4);
        arr!(5);
        arr!(6);
        arr!(7);
        arr!(8);
        arr!(9);
        arr!(16);
        v
    }};
}

/// all conversions into a key from the same bytes give the same key (its bytes are the given bytes)
fn c10_conversion_families(evals: &mut u64) -> Result<(), (String, String)> {
    use abyssiniandb::{DbBytes, DbMapKeyType, DbString};
    let mut set = byte_key_set();
    for x in [0u64, 1, 7, 127, 128, 255, 256, 16383, 16384, 1 << 32, u64::MAX] {
        set.push(x.to_le_bytes().to_vec());
        set.push(x.to_be_bytes().to_vec());
        set.push(decoder::vu_encode(x));
    }
    for n in 0..=9usize {
        set.push((0..n as u8).map(|i| i * 37 + 1).collect());
        set.push(vec![0u8; n]);
        set.push(vec![0xFFu8; n]);
    }
    set.push(b"0123456789abcdef".to_vec());
    set.sort();
    set.dedup();
    macro_rules! one_type {
        ($t:ty, $name:expr) => {
            for b in &set {
                let r = guard_plain(|| conv_family!($t, &b[..]).into_iter().map(|(n, k)| (n, k.as_bytes().to_vec())).collect::<Vec<_>>());
                match r {
                    Out::Ok(fam) => {
                        for (n, kb) in fam {
                            *evals += 1;
                            if &kb != b {
                                return Err(("convert:family".into(), format!("{}: {n} of the bytes {} gives a key with the bytes {}", $name, show(b), show(&kb))));
                            }
                        }
                    }
                    o => return Err(("convert:family-panic".into(), format!("{}: making a key from the bytes {} {}", $name, show(b), o.failed().unwrap_or_default()))),
                }
            }
        };
    }
    one_type!(DbBytes, "bytes");
    one_type!(DbString, "string");
    one_type!(DbU64, "u64");
    one_type!(DbI64, "i64");
    // a vu64 key made from bytes keeps the bytes only if they are a canonical vu64 encoding; use those
    for x in int_domain(false) {
        let b = decoder::vu_encode(x);
        let r = guard_plain(|| conv_family!(DbVu64, &b[..], nostr).into_iter().map(|(n, k)| (n, k.as_bytes().to_vec())).collect::<Vec<_>>());
        match r {
            Out::Ok(fam) => {
                for (n, kb) in fam {
                    *evals += 1;
                    if kb != b {
                        return Err(("convert:family".into(), format!("vu64: {n} of the bytes {} gives a key with the bytes {}", show(&b), show(&kb))));
                    }
                }
            }
            o => return Err(("convert:family-panic".into(), format!("vu64: making a key from the bytes {} {}", show(&b), o.failed().unwrap_or_default()))),
        }
    }
    Ok(())
}

/// the byte-string key types also convert from u64 (big endian): by value and by reference must agree
fn c10_bytes_from_u64(evals: &mut u64) -> Result<(), (String, String)> {
    use abyssiniandb::DbMapKeyType;
    for x in boundary_ints() {
        *evals += 1;
        let a = abyssiniandb::DbBytes::from(x);
        let b = abyssiniandb::DbBytes::from(&x);
        let c = abyssiniandb::DbString::from(x);
        let d = abyssiniandb::DbString::from(&x);
        if a.as_bytes() != b.as_bytes() || c.as_bytes() != d.as_bytes() {
            return Err(("convert:value-vs-reference".into(), format!("From<u64> by value and by reference give different byte/string keys for {x}")));
        }
    }
    Ok(())
}

/// the integer key types (u64, i64) also accept raw byte keys of any length: each is its own entry
fn c10_odd_keys_on_int_map<T: Kt>(dir: &std::path::Path, evals: &mut u64) -> Result<(), (String, String)> {
    let kt = T::ID;
    clear_dir(dir);
    let keys: Vec<Vec<u8>> = vec![vec![], vec![7], 7u64.to_le_bytes().to_vec(), { let mut k = 7u64.to_le_bytes().to_vec(); k.push(0); k }, vec![7, 0], vec![0], 0u64.to_le_bytes().to_vec()];
    let (db, mut m) = match open_map::<T>(dir, MAP_NAME, &Params::buckets(1)) {
        Out::Ok(x) => x,
        o => return Err(("odd:open".into(), format!("open {}", o.failed().unwrap_or_default()))),
    };
    for (i, k) in keys.iter().enumerate() {
        *evals += 1;
        let v = vec![i as u8 + 1; 3];
        if guard(|| m.put(&k[..], &v)) != Out::Ok(()) {
            return Err(("odd:put".into(), format!("{}: put of the {}-byte key {} fails", kt.name(), k.len(), show(k))));
        }
        if guard(|| m.len()) != Out::Ok(i as u64 + 1) {
            return Err(("odd:identity".into(), format!("{}: after put of the {}-byte key {} len() is not {}: keys with different bytes are treated as the same entry", kt.name(), k.len(), show(k), i + 1)));
        }
    }
    for (i, k) in keys.iter().enumerate() {
        if guard(|| m.get(&k[..])) != Out::Ok(Some(vec![i as u8 + 1; 3])) {
            return Err(("odd:get".into(), format!("{}: get of the {}-byte key {} gives another key's value", kt.name(), k.len(), show(k))));
        }
    }
    let _ = guard_plain(move || {
        drop(m);
        drop(db);
    });
    Ok(())
}

fn c10_bytes<T: Kt>(dir: &std::path::Path, evals: &mut u64) -> Result<(), (String, String)> {
    // once with every key in one chain (1 bucket: the stored-key comparison decides identity), once spread
    c10_bytes_n::<T>(dir, 1, evals)?;
    c10_bytes_n::<T>(dir, 8, evals)
}

fn c10_bytes_n<T: Kt>(dir: &std::path::Path, buckets: u64, evals: &mut u64) -> Result<(), (String, String)> {
    // in ascending order (the empty key is the oldest entry of its chain), in descending order (it is the
    // newest) and rotated (it sits in the middle)
    let base = byte_key_set();
    let mut desc = base.clone();
    desc.reverse();
    let mut rot = base.clone();
    rot.rotate_left(base.len() / 2);
    for keys in [base, desc, rot] {
        c10_bytes_order::<T>(dir, buckets, keys, evals)?;
    }
    Ok(())
}

fn c10_bytes_order<T: Kt>(dir: &std::path::Path, buckets: u64, keys: Vec<Vec<u8>>, evals: &mut u64) -> Result<(), (String, String)> {
    let kt = T::ID;
    clear_dir(dir);
    let (db, mut m) = match open_map::<T>(dir, MAP_NAME, &Params::buckets(buckets)) {
        Out::Ok(x) => x,
        o => return Err(("bytes:open".into(), format!("open {}", o.failed().unwrap_or_default()))),
    };
    let mut model: BTreeMap<Vec<u8>, Vec<u8>> = BTreeMap::new();
    for (i, k) in keys.iter().enumerate() {
        *evals += 1;
        let v = format!("value-{i}").into_bytes();
        let r = guard(|| m.put(&k[..], &v));
        if r != Out::Ok(()) {
            return Err(("bytes:put".into(), format!("{}: put({}) {}", kt.name(), show(k), r.failed().unwrap_or_default())));
        }
        model.insert(k.clone(), v);
        if guard(|| m.len()) != Out::Ok(model.len() as u64) {
            return Err(("bytes:identity".into(), format!("{}: after put({}) len() is not {}: two keys with different bytes are treated as the same entry", kt.name(), show(k), model.len())));
        }
    }
    for round in 0..2 {
        for k in &keys {
            *evals += 1;
            let r = guard(|| m.get(&k[..]));
            if r != Out::Ok(model.get(k).cloned()) {
                return Err(("bytes:get".into(), format!("{}: get({}) gives {:?} instead of {:?}", kt.name(), show(k), r, model.get(k).map(|v| show(v)))));
            }
        }
        match guard_plain(|| m.iter().map(|(k, v)| (k.as_bytes().to_vec(), v)).collect::<Vec<_>>()) {
            Out::Ok(mut items) => {
                items.sort();
                let exp: Vec<(Vec<u8>, Vec<u8>)> = model.clone().into_iter().collect();
                if items != exp {
                    return Err(("bytes:iter".into(), format!("{}: keys returned by iteration are not the bytes that were put", kt.name())));
                }
            }
            o => return Err(("bytes:iter-panic".into(), format!("{}: iteration {}", kt.name(), o.failed().unwrap_or_default()))),
        }
        if round == 0 {
            for (i, k) in keys.iter().enumerate() {
                if i % 2 == 0 {
                    let r = guard(|| m.delete(&k[..]));
                    if r != Out::Ok(model.remove(k)) {
                        return Err(("bytes:delete".into(), format!("{}: delete({}) gives {:?}", kt.name(), show(k), r)));
                    }
                }
            }
        }
    }
    let _ = guard_plain(move || {
        drop(m);
        drop(db);
    });
    Ok(())
}

fn c10_job(payload: &[u8], _io: &mut WorkerIo) -> Vec<u8> {
    let mut r = Rd::new(payload);
    let part = r.u8();
    let full = r.u8() == 1;
    let scratch = Scratch::new("c10");
    let dir = scratch.fresh("d");
    let mut evals = 0u64;
    if part >= 100 {
        let (t, rg, chunk) = (part - 100, r.u8(), r.u64());
        let res = match t {
            0 => c10_range::<DbU64>(rg, chunk, &mut evals),
            1 => c10_range::<DbI64>(rg, chunk, &mut evals),
            _ => c10_range::<DbVu64>(rg, chunk, &mut evals),
        };
        let mut out = Buf::new();
        match res {
            Ok(()) => result_ok(&mut out, evals, evals),
            Err((key, msg)) => result_bad(&mut out, &key, &msg, evals, payload),
        }
        return out.0;
    }
    let dom = int_domain(full);
    let res = match part {
        0 => c10_conversions::<DbU64>(&dom, &mut evals),
        1 => c10_conversions::<DbI64>(&dom, &mut evals),
        2 => c10_conversions::<DbVu64>(&dom, &mut evals),
        3 => c10_map_level::<DbU64>(&dir, &mut evals),
        4 => c10_map_level::<DbI64>(&dir, &mut evals),
        5 => c10_map_level::<DbVu64>(&dir, &mut evals),
        6 => c10_bytes::<abyssiniandb::DbBytes>(&dir, &mut evals).and_then(|_| c10_bytes_from_u64(&mut evals)),
        7 => c10_bytes::<abyssiniandb::DbString>(&dir, &mut evals),
        8 => c10_odd_keys_on_int_map::<DbU64>(&dir, &mut evals),
        9 => c10_odd_keys_on_int_map::<DbI64>(&dir, &mut evals),
        _ => c10_conversion_families(&mut evals),
    };
    let mut out = Buf::new();
    match res {
        Ok(()) => result_ok(&mut out, evals, if part < 3 { dom.len() as u64 } else { evals }),
        Err((key, msg)) => result_bad(&mut out, &key, &msg, evals, payload),
    }
    out.0
}

const C10_PARTS: [&str; 11] = ["u64 conversions", "i64 conversions", "vu64 conversions", "u64 map", "i64 map", "vu64 map", "bytes map", "string map", "u64-raw-bytes map", "i64-raw-bytes map", "families of conversions from bytes"];

pub fn c10(tier: &str, seed: u64) -> i32 {
    let mut ctx = Ctx::new("C10", tier, seed, "exploration");
    ctx.pool.reinit(vec![]);
    ctx.pool.watchdog = std::time::Duration::from_secs(60);
    let full = true;
    let jobs: Vec<Vec<u8>> = (0..11u8)
        .map(|p| {
            let mut b = Buf::new();
            b.u8(JOB_F_C10).u8(p).u8(full as u8);
            b.0
        })
        .collect();
    let results = ctx.pool.map(&jobs, |i| i);
    let mut evals = 0u64;
    let mut nt = 0u64;
    for (i, res) in results.into_iter().enumerate() {
        match res {
            JobResult::Done(b) => {
                let mut r = Rd::new(&b);
                if r.u8() == 0 {
                    let e = r.u64();
                    evals += e;
                    nt += r.u64();
                    ctx.run.add(&format!("evaluations_{}", C10_PARTS[i].replace(' ', "_")), e as i64);
                } else {
                    let key = r.string();
                    let msg = r.string();
                    evals += r.u64();
                    let case = r.vec();
                    ctx.run.violation(Violation { prop: "C10".into(), key: format!("{}:{key}", C10_PARTS[i].split(' ').next().unwrap()), message: msg.clone(), replay: Replay { engine: "C10".into(), config: vec![], case, story: vec![format!("part: {}", C10_PARTS[i]), msg] } });
                }
            }
            JobResult::Crashed { how, .. } => {
                let msg = format!("{}: does not return normally: {how}", C10_PARTS[i]);
                ctx.run.violation(Violation { prop: "C10".into(), key: format!("{}:crash", C10_PARTS[i].split(' ').next().unwrap()), message: msg.clone(), replay: Replay { engine: "C10".into(), config: vec![], case: jobs[i][1..].to_vec(), story: vec![msg] } });
            }
        }
    }
    let mut swept = 0u64;
    if ctx.run.thorough() && ctx.run.violations.is_empty() {
        // four ranges of 2^32 integers each, per integer key type, in blocks of 2^24
        let mut rjobs: Vec<Vec<u8>> = Vec::new();
        for t in 0..3u8 {
            for rg in 0..4u8 {
                for chunk in 0..((1u64 << 32) / C10_CHUNK) {
                    let mut b = Buf::new();
                    b.u8(JOB_F_C10).u8(100 + t).u8(1).u8(rg).u64(chunk);
                    rjobs.push(b.0);
                }
            }
        }
        ctx.pool.watchdog = std::time::Duration::from_secs(600);
        let results = ctx.pool.map(&rjobs, |i| i);
        for (i, res) in results.into_iter().enumerate() {
            let tname = ["u64", "i64", "vu64"][(rjobs[i][1] - 100) as usize];
            match res {
                JobResult::Done(b) => {
                    let mut r = Rd::new(&b);
                    if r.u8() == 0 {
                        let e = r.u64();
                        swept += e;
                        ctx.run.add(&format!("range_sweep_{tname}"), e as i64);
                    } else {
                        let key = r.string();
                        let msg = r.string();
                        swept += r.u64();
                        let case = r.vec();
                        ctx.run.violation(Violation { prop: "C10".into(), key: format!("{tname}:{key}"), message: msg.clone(), replay: Replay { engine: "C10".into(), config: vec![], case, story: vec![format!("range sweep: {}", C10_RANGES[rjobs[i][3] as usize]), msg] } });
                    }
                }
                JobResult::Crashed { how, .. } => {
                    let msg = format!("range sweep {tname} {}: does not return normally: {how}", C10_RANGES[rjobs[i][3] as usize]);
                    ctx.run.violation(Violation { prop: "C10".into(), key: format!("{tname}:crash"), message: msg.clone(), replay: Replay { engine: "C10".into(), config: vec![], case: rjobs[i][1..].to_vec(), story: vec![msg] } });
                }
            }
        }
        evals += swept;
        nt += swept;
        ctx.run.set("range_sweep", J::s(&format!("thorough tier: per integer key type every member of four ranges of 2^32 integers ({}): by value = by reference, integer -> key -> integer and integer -> key -> stored bytes -> key -> integer are the identity (hence the encodings of different integers differ); {swept} conversions checked", C10_RANGES.join("; "))));
        eprintln!("[C10] range sweep: {swept} integers x conversions");
    }
    let dom = int_domain(full);
    eprintln!("[C10] integer domain {} values, boundary subset {}, evaluations {evals}", dom.len(), boundary_ints().len());
    ctx.run.set("evaluations", J::Int(evals as i64));
    ctx.run.set("distinct_nontrivial", J::Int(nt as i64));
    ctx.run.set("integer_domain", J::Int(dom.len() as i64));
    ctx.run.set("rule", J::s("complete enumeration of a structured finite subset of the 64-bit integers (the full 2^64 is out of reach): all values with <= 2 bits set and their complements, 2^k-1, 2^k, 2^k+1 and their negations for every k, the i64 extremes, and every 16-bit value rotated to each of the 8 byte positions. for DbU64, DbI64, DbVu64: conversion by value = by reference, back conversion (by value and by reference) returns the integer, encodings pairwise distinct over the whole domain (sort + adjacent compare), placement hash equal for equal keys and equal to the documented function of the bytes, cmp_u8 Equal exactly on the diagonal of the boundary subset squared; map level: all boundary integers put into a typed map, get each, iterate and convert the keys back, delete every third, repeat; string/bytes: a key set with prefixes of each other, embedded NULs, non-UTF-8 and non-normalised UTF-8: each key is its own entry. every enumerated integer is a distinct case"));
    for x in [0u64, 127, 128, 16383, 16384, u64::MAX, i64::MIN as u64] {
        ctx.run.sample(J::s(&format!("{x} -> u64 key {} / vu64 key {}", show(&x.to_le_bytes()), show(&decoder::vu_encode(x)))));
    }
    ctx.run.exhaustive = true;
    ctx.run.assumptions.push("integers outside the enumerated subset are not covered (stated bound)".into());
    let run = ctx.run;
    drop(ctx.pool);
    run.finish()
}

pub fn replay_generic(kind: u8, case: &[u8]) -> i32 {
    let mut io = WorkerIo::sink();
    let b = match kind {
        JOB_F_C10 => c10_job(case, &mut io),
        JOB_F_C13 => c13_job(case, &mut io),
        _ => c14_job(case, &mut io),
    };
    let mut r = Rd::new(&b);
    if r.u8() == 0 {
        println!("REPLAY: no violation reproduced");
        0
    } else {
        let key = r.string();
        let msg = r.string();
        println!("REPLAY VIOLATION [{key}]: {msg}");
        1
    }
}

// ---------------------------------------------------------------------------------------------
// C13: wrong key type / foreign signatures

const C13_TABLES: [u64; 4] = [8, 1, 4, 1024];

fn sample_image(kt: KtId, dir: &std::path::Path, empty: bool, buckets: u64, flushed_copy: bool) -> Result<Image, String> {
    clear_dir(dir);
    let k = crate::alphabet::int_key(kt, 5);
    let r: Result<Option<Image>, String> = crate::with_kt!(kt, T => {
        match open_map::<T>(dir, MAP_NAME, &Params::buckets(buckets)) {
            Out::Ok((db, mut m)) => {
                let r = if empty { Out::Ok(()) } else { guard(|| m.put(&k[..], b"payload")) };
                // the files as they are after a flush, read while the handles are alive (what a copy of the
                // directory taken at that moment holds), instead of the files after a clean close
                let mut snap = None;
                let mut fl = Out::Ok(());
                if flushed_copy {
                    fl = guard(|| m.flush());
                    snap = Image::read(dir, MAP_NAME).ok();
                }
                drop(m);
                drop(db);
                if r != Out::Ok(()) {
                    Err(format!("put {}", r.failed().unwrap_or_default()))
                } else if fl != Out::Ok(()) {
                    Err(format!("flush {}", fl.failed().unwrap_or_default()))
                } else {
                    Ok(snap)
                }
            }
            o => Err(format!("open {}", o.failed().unwrap_or_default())),
        }
    });
    match r? {
        Some(img) => Ok(img),
        None if flushed_copy => Err("files unreadable after flush".into()),
        None => Image::read(dir, MAP_NAME).map_err(|e| e.to_string()),
    }
}

/// try to open `img` as key type `kt`; Ok(None) = rejected, Ok(Some(what)) = a lookup answered Ok
fn try_open_as(kt: KtId, img: &Image, dir: &std::path::Path) -> Result<Option<String>, String> {
    clear_dir(dir);
    img.write(dir, MAP_NAME).map_err(|e| e.to_string())?;
    let k = crate::alphabet::int_key(kt, 5);
    let accepted: Option<String> = crate::with_kt!(kt, T => {
        match open_map::<T>(dir, MAP_NAME, &Params::buckets(8)) {
            Out::Ok((db, mut m)) => {
                let mut acc = None;
                if let Out::Ok(n) = guard(|| m.len()) {
                    acc = Some(format!("len() = Ok({n})"));
                }
                if acc.is_none() {
                    if let Out::Ok(v) = guard(|| m.get(&k[..])) {
                        acc = Some(format!("get = Ok({:?})", v.map(|x| show(&x))));
                    }
                }
                if acc.is_none() {
                    if let Out::Ok(v) = guard(|| m.includes_key(&k[..])) {
                        acc = Some(format!("includes_key = Ok({v})"));
                    }
                }
                if acc.is_none() {
                    if let Out::Ok(n) = guard_plain(|| m.iter().count()) {
                        acc = Some(format!("iteration yields {n} items"));
                    }
                }
                let _ = guard_plain(move || { drop(m); drop(db); });
                acc
            }
            _ => None,
        }
    });
    let after = Image::read(dir, MAP_NAME).map_err(|e| e.to_string())?;
    if &after != img {
        return Err(format!("files changed by the open attempt: {}", img.describe_diff(&after)));
    }
    Ok(accepted)
}

fn c13_job(payload: &[u8], io: &mut WorkerIo) -> Vec<u8> {
    let mut r = Rd::new(payload);
    let mode_raw = r.u8(); // bit 0: 0 cross-type, 1 signature byte mutations; bit 1: maps that never held an entry; bits 2-3: table size
    let mode = mode_raw & 1;
    let empty = mode_raw & 2 != 0;
    let buckets = C13_TABLES[(mode_raw >> 2) as usize & 3];
    let flushed_copy = mode_raw & 16 != 0;
    let a = KtId::from_u8(r.u8());
    let only_file = r.u8(); // 255 all
    let only_byte = r.u32(); // u32::MAX all
    let scratch = Scratch::new("c13");
    let dir = scratch.fresh("d");
    let work = scratch.fresh("w");
    let mut out = Buf::new();
    let mut evals = 0u64;
    let img_a = match sample_image(a, &dir, empty, buckets, flushed_copy) {
        Ok(i) => i,
        Err(e) => {
            result_bad(&mut out, "setup", &format!("cannot create a {} map: {e}", a.name()), 0, payload);
            return out.0;
        }
    };
    let files = ["htx", "key", "val"];
    let fail = |out: &mut Buf, key: String, msg: String, evals: u64, case: Vec<u8>| result_bad(out, &key, &msg, evals, &case);
    if mode == 0 {
        // only_file = the other type, only_byte = sub case (0: A files opened as B; 1..3: A map with B's htx/key/val)
        let b = KtId::from_u8(only_file);
        let sub = only_byte as usize;
        let img_b = match sample_image(b, &dir, empty, buckets, flushed_copy) {
            Ok(i) => i,
            Err(e) => {
                result_bad(&mut out, "setup", &format!("cannot create a {} map: {e}", b.name()), evals, payload);
                return out.0;
            }
        };
        let pairkey = {
            let (x, y) = if a.name() < b.name() { (a.name(), b.name()) } else { (b.name(), a.name()) };
            format!("{x}/{y}")
        };
        evals += 1;
        io.progress(evals);
        if sub >= 100 {
            // one file replaced by 1..15 bytes of garbage: shorter than a complete signature, and not this format's
            let x = sub - 100;
            let fi = x / 15;
            let len = x % 15 + 1;
            // (a file cut down to a prefix of its own header is not a foreign signature: reads past the end give
            // zeros and every signature ends in a zero byte - only garbage is used)
            let garbage = true;
            let mut mixed = img_a.clone();
            let fbytes = match fi {
                0 => &mut mixed.htx,
                1 => &mut mixed.key,
                _ => &mut mixed.val,
            };
            if fbytes.len() < len {
                result_ok(&mut out, evals, evals);
                return out.0;
            }
            fbytes.truncate(len);
            if garbage {
                for (i, b) in fbytes.iter_mut().enumerate() {
                    *b = 0xAB ^ (i as u8);
                }
            }
            let what_file = format!(".{} {} {len} byte(s)", files[fi], if garbage { "replaced by garbage of" } else { "cut down to its first" });
            match try_open_as(a, &mixed, &work) {
                Ok(None) => {}
                Ok(Some(what)) => {
                    fail(&mut out, format!("short-file:{}:{}:{}", a.name(), files[fi], if garbage { "garbage" } else { "truncated" }), format!("a {} map ({}, {buckets} buckets) whose {what_file} opens and answers: {what}", a.name(), if empty { "never updated" } else { "one entry" }), evals, payload.to_vec());
                    return out.0;
                }
                Err(e) => {
                    fail(&mut out, format!("rejected-open-modifies:{}:{}:short", a.name(), files[fi]), format!("{} map whose {what_file}: {e}", a.name()), evals, payload.to_vec());
                    return out.0;
                }
            }
            result_ok(&mut out, evals, evals);
            return out.0;
        }
        if sub >= 4 {
            // one file of the map replaced by a copy of one of its own sibling files (same key type, another file kind)
            let pairs = [(0usize, 1usize), (0, 2), (1, 0), (1, 2), (2, 0), (2, 1)];
            let (dst, src) = pairs[(sub - 4) % 6];
            let mut mixed = img_a.clone();
            let srcb = match src {
                0 => img_a.htx.clone(),
                1 => img_a.key.clone(),
                _ => img_a.val.clone(),
            };
            match dst {
                0 => mixed.htx = srcb,
                1 => mixed.key = srcb,
                _ => mixed.val = srcb,
            }
            match try_open_as(a, &mixed, &work) {
                Ok(None) => {}
                Ok(Some(what)) => {
                    fail(&mut out, format!("sibling-file:{}:{}-is-a-copy-of-{}", a.name(), files[dst], files[src]), format!("a {} map ({}, {buckets} buckets) whose .{} file is a copy of its .{} file opens and answers: {what}", a.name(), if empty { "never updated" } else { "one entry" }, files[dst], files[src]), evals, payload.to_vec());
                    return out.0;
                }
                Err(e) => {
                    fail(&mut out, format!("rejected-open-modifies:{}:{}-is-{}", a.name(), files[dst], files[src]), format!("{} map whose .{} is a copy of its .{}: {e}", a.name(), files[dst], files[src]), evals, payload.to_vec());
                    return out.0;
                }
            }
            result_ok(&mut out, evals, evals);
            return out.0;
        }
        if sub == 0 {
            match try_open_as(b, &img_a, &work) {
                Ok(None) => {}
                Ok(Some(what)) => {
                    fail(&mut out, format!("sig-collision:{pairkey}:open-{}-as-{}{}", a.name(), b.name(), if empty { ":empty-map" } else { "" }), format!("files created for key type {} ({}, {buckets} buckets) open as key type {} and answer: {what}", a.name(), if empty { "never updated" } else { "one entry" }, b.name()), evals, payload.to_vec());
                    return out.0;
                }
                Err(e) => {
                    fail(&mut out, format!("rejected-open-modifies:{}-as-{}", a.name(), b.name()), format!("opening {} files as {}: {e}", a.name(), b.name()), evals, payload.to_vec());
                    return out.0;
                }
            }
        } else {
            let fi = sub - 1;
            let f = files[fi];
            let mut mixed = img_a.clone();
            match fi {
                0 => mixed.htx = img_b.htx.clone(),
                1 => mixed.key = img_b.key.clone(),
                _ => mixed.val = img_b.val.clone(),
            }
            match try_open_as(a, &mixed, &work) {
                Ok(None) => {}
                Ok(Some(what)) => {
                    fail(&mut out, format!("sig-collision:{pairkey}:{}-map-with-{}-{f}{}", a.name(), b.name(), if empty { ":empty-map" } else { "" }), format!("a {} map ({}, {buckets} buckets) whose .{f} file comes from a {} map opens as {} and answers: {what}", a.name(), if empty { "never updated" } else { "one entry" }, b.name(), a.name()), evals, payload.to_vec());
                    return out.0;
                }
                Err(e) => {
                    fail(&mut out, format!("rejected-open-modifies:{}-with-{}-{f}", a.name(), b.name()), format!("{} map with foreign .{f}: {e}", a.name()), evals, payload.to_vec());
                    return out.0;
                }
            }
        }
    } else {
        for (fi, f) in files.iter().enumerate() {
            if only_file != 255 && only_file as usize != fi {
                continue;
            }
            for pos in 0..16usize {
                if only_byte != u32::MAX && only_byte as usize / 256 != pos {
                    continue;
                }
                io.progress((fi * 16 + pos) as u64);
                for delta in 1..=255u8 {
                    evals += 1;
                    let mut mutated = img_a.clone();
                    let fbytes = match fi {
                        0 => &mut mutated.htx,
                        1 => &mut mutated.key,
                        _ => &mut mutated.val,
                    };
                    if pos >= fbytes.len() {
                        continue;
                    }
                    fbytes[pos] = fbytes[pos].wrapping_add(delta);
                    let newb = fbytes[pos];
                    match try_open_as(a, &mutated, &work) {
                        Ok(None) => {}
                        Ok(Some(what)) => {
                            let mut case = Buf::new();
                            case.u8(mode_raw).u8(a as u8).u8(fi as u8).u32((pos * 256) as u32);
                            let sig = if pos < 8 { "format signature" } else { "type signature" };
                            fail(&mut out, format!("sig-mutation:{}:{f}:{sig}{}", a.name(), if empty { ":empty-map" } else { "" }).replace(' ', "-"), format!("{} map ({buckets} buckets): byte {pos} of .{f} ({sig}) changed to 0x{newb:02x}: the open is accepted and answers: {what}", a.name()), evals, case.0);
                            return out.0;
                        }
                        Err(e) => {
                            fail(&mut out, format!("rejected-open-modifies:{}:{f}", a.name()), format!("{} map with byte {pos} of .{f} changed: {e}", a.name()), evals, payload.to_vec());
                            return out.0;
                        }
                    }
                }
            }
        }
    }
    result_ok(&mut out, evals, evals);
    out.0
}

pub fn c13(tier: &str, seed: u64) -> i32 {
    let mut ctx = Ctx::new("C13", tier, seed, "exploration");
    ctx.pool.reinit(vec![]);
    ctx.pool.watchdog = std::time::Duration::from_secs(60);
    let mut jobs: Vec<Vec<u8>> = Vec::new();
    for (geo, empty) in [(0u8, 0u8), (0, 2), (1, 0), (1, 2), (2, 0), (2, 2), (3, 0), (3, 2), (0, 18), (1, 18), (2, 18), (3, 18)] {
        let empty = empty | (geo << 2);
        for a in KtId::ALL {
            for bt in KtId::ALL {
                if bt == a {
                    continue;
                }
                for sub in 0..4u32 {
                    let mut b = Buf::new();
                    b.u8(JOB_F_C13).u8(empty).u8(a as u8).u8(bt as u8).u32(sub);
                    jobs.push(b.0);
                }
            }
            for sub in (4..10u32).chain(100..145) {
                let mut b = Buf::new();
                b.u8(JOB_F_C13).u8(empty).u8(a as u8).u8(a as u8).u32(sub);
                jobs.push(b.0);
            }
            for fi in 0..3u8 {
                let mut b = Buf::new();
                b.u8(JOB_F_C13).u8(1 | empty).u8(a as u8).u8(fi).u32(u32::MAX);
                jobs.push(b.0);
            }
        }
    }
    // a job stops at its first acceptance; run again past known findings is not needed: each
    // (type, other type) acceptance is its own job result below
    let mut evals = 0u64;
    let results = ctx.pool.map(&jobs, |i| i);
    let mut pending: Vec<(usize, JobResult)> = results.into_iter().enumerate().collect();
    // cross-type jobs stop at the first accepted case; continue them pair by pair
    let mut extra_rounds = 0;
    while let Some((i, res)) = pending.pop() {
        match res {
            JobResult::Done(b) => {
                let mut r = Rd::new(&b);
                if r.u8() == 0 {
                    evals += r.u64();
                } else {
                    let key = r.string();
                    let msg = r.string();
                    evals += r.u64();
                    let case = r.vec();
                    ctx.run.violation(Violation { prop: "C13".into(), key: key.clone(), message: msg.clone(), replay: Replay { engine: "C13".into(), config: vec![], case, story: vec![msg] } });
                    if key.starts_with("sig-collision:") && extra_rounds < 40 {
                        // continue the same type with the remaining cases: run each other type alone
                        extra_rounds += 1;
                    }
                }
            }
            JobResult::Crashed { how, .. } => {
                let msg = format!("open attempt does not return normally: {how}");
                ctx.run.violation(Violation { prop: "C13".into(), key: "crash".into(), message: msg.clone(), replay: Replay { engine: "C13".into(), config: vec![], case: jobs[i][1..].to_vec(), story: vec![msg] } });
            }
        }
    }
    eprintln!("[C13] open attempts: {evals}");
    ctx.run.set("evaluations", J::Int(evals as i64));
    ctx.run.set("distinct_nontrivial", J::Int(evals as i64));
    ctx.run.set("rule", J::s("complete enumeration: (1) every ordered pair of the five key types: files created for A opened as B, and a directory of A files in which one of .htx/.key/.val comes from a B map opened as A; per key type also every ordered pair of file kinds: one file replaced by a copy of a sibling file of the same map (a table file where the key file should be, ...), and each file replaced by 1..15 bytes of garbage (a file shorter than a signature); (2) per key type and per file every single-byte change (255 values) of each of the 16 leading signature bytes (5 x 3 x 16 x 255 = 61200 per table size and fill state); both families on tables of 8, 1, 4 and 1024 buckets (the table file is 137 bytes long with one bucket), each on maps holding one entry, on maps that were created and never updated (files of exactly header size) and on the files of a never-updated map as they are after flush() while the handles are still alive. each attempt runs under catch_unwind: the open must fail (Err or panic) or at least no len/get/includes_key/iteration may answer Ok; afterwards the three files must be byte-identical. every case is distinct"));
    ctx.run.sample(J::s("string files opened as bytes"));
    ctx.run.sample(J::s("u64 map whose .val comes from an i64 map, opened as u64"));
    ctx.run.sample(J::s("bytes map, byte 6 of .key changed from 'K' to 'L'"));
    ctx.run.exhaustive = true;
    let run = ctx.run;
    drop(ctx.pool);
    run.finish()
}

// ---------------------------------------------------------------------------------------------
// C14: bulk and convenience calls

fn perms_upto(n: usize, max_len: usize, repetition: bool) -> Vec<Vec<usize>> {
    let mut out: Vec<Vec<usize>> = vec![vec![]];
    let mut level: Vec<Vec<usize>> = vec![vec![]];
    for _ in 0..max_len {
        let mut next = Vec::new();
        for p in &level {
            for x in 0..n {
                if !repetition && p.contains(&x) {
                    continue;
                }
                let mut q = p.clone();
                q.push(x);
                next.push(q);
            }
        }
        out.extend(next.iter().cloned());
        level = next;
    }
    out
}

fn c14_type<T: Kt>(dir: &std::path::Path, max_len: usize, evals: &mut u64) -> Result<(), (String, String)> {
    let kt = T::ID;
    // 4 keys whose sort order differs from the order they are used in
    let keys: Vec<Vec<u8>> = match kt {
        KtId::Bytes => vec![b"m".to_vec(), vec![0xFF, 0x01], b"".to_vec(), b"m\0".to_vec()],
        KtId::Str => vec![b"mango".to_vec(), b"zebra".to_vec(), b"man".to_vec(), "é".as_bytes().to_vec()],
        _ => [300u64, 2, 70000, 1].iter().map(|x| crate::alphabet::int_key(kt, *x)).collect(),
    };
    // values: valid UTF-8 and invalid UTF-8
    let vals: Vec<Vec<u8>> = vec![b"plain".to_vec(), vec![0xFF, 0xFE, b'x'], "grüße".as_bytes().to_vec(), vec![], vec![b'a', 0xC3]];
    let lossy = |v: &Vec<u8>| String::from_utf8_lossy(v).to_string();
    // one bucket: every key is in one chain, so the stored-key comparison decides every lookup
    let p = Params::buckets(1);
    // batches whose values push the value file across 16 KiB while keys sit on slot-class edges
    if matches!(kt, KtId::Bytes | KtId::Str) {
        clear_dir(dir);
        let (db, mut m) = match open_map::<T>(dir, MAP_NAME, &p) {
            Out::Ok(x) => x,
            o => return Err(("open".into(), format!("open {}", o.failed().unwrap_or_default()))),
        };
        let ek: Vec<Vec<u8>> = vec![b"edge-key-11".to_vec(), b"edge-key10".to_vec(), b"edge-key-of-18-byt".to_vec(), b"edge-key-of-19-byte".to_vec()];
        let mut model: BTreeMap<Vec<u8>, Vec<u8>> = BTreeMap::new();
        for round in 0..4usize {
            *evals += 1;
            let sizes = [[10usize, 20, 30, 40], [9000, 50, 7000, 60], [70, 9500, 80, 8000], [12000, 11000, 90, 100]][round];
            let vals2: Vec<Vec<u8>> = (0..4).map(|i| pat(round as u64 * 4 + i as u64, sizes[i])).collect();
            let order = [[2usize, 0, 3, 1], [1, 3, 0, 2], [3, 2, 1, 0], [0, 1, 2, 3]][round];
            let pairs: Vec<(&[u8], &[u8])> = order.iter().map(|i| (&ek[*i][..], &vals2[*i][..])).collect();
            for (k, v) in &pairs {
                model.insert(k.to_vec(), v.to_vec());
            }
            let r = guard(|| m.bulk_put(&pairs));
            if r != Out::Ok(()) {
                return Err(("bulk_put".into(), format!("{}: bulk_put of large values {}", kt.name(), r.failed().unwrap_or_default())));
            }
            check_state(&mut m, &ek, &model, kt, "bulk_put of values that move across 16 KiB")?;
            let ks: Vec<&[u8]> = ek.iter().map(|k| &k[..]).collect();
            let exp: Vec<Option<Vec<u8>>> = ek.iter().map(|k| model.get(k).cloned()).collect();
            if guard(|| m.bulk_get(&ks)) != Out::Ok(exp) {
                return Err(("bulk_get".into(), format!("{}: bulk_get after large bulk_put differs from the element-wise gets", kt.name())));
            }
        }
        let ks: Vec<&[u8]> = vec![&ek[1][..], &ek[3][..]];
        let exp: Vec<Option<Vec<u8>>> = vec![model.remove(&ek[1]), model.remove(&ek[3])];
        if guard(|| m.bulk_delete(&ks)) != Out::Ok(exp) {
            return Err(("bulk_delete".into(), format!("{}: bulk_delete after large bulk_put differs from the element-wise deletes", kt.name())));
        }
        check_state(&mut m, &ek, &model, kt, "bulk_delete after large batches")?;
        let _ = guard_plain(move || {
            drop(m);
            drop(db);
        });
        // a batch with a value beyond 128 KiB (three-byte size field, more than one buffer chunk)
        {
            *evals += 1;
            clear_dir(dir);
            let (db, mut m) = match open_map::<T>(dir, MAP_NAME, &p) {
                Out::Ok(x) => x,
                o => return Err(("open".into(), format!("open {}", o.failed().unwrap_or_default()))),
            };
            let mut model: BTreeMap<Vec<u8>, Vec<u8>> = BTreeMap::new();
            let big = pat(71, 140_000);
            let small = pat(72, 9);
            let pairs: Vec<(&[u8], &[u8])> = vec![(&ek[1][..], &big[..]), (&ek[0][..], &small[..])];
            for (k, v) in &pairs {
                model.insert(k.to_vec(), v.to_vec());
            }
            if guard(|| m.bulk_put(&pairs)) != Out::Ok(()) {
                return Err(("bulk_put".into(), format!("{}: bulk_put with a 140000-byte value fails", kt.name())));
            }
            let ks: Vec<&[u8]> = vec![&ek[0][..], &ek[1][..], &ek[2][..], &ek[1][..]];
            let exp: Vec<Option<Vec<u8>>> = ks.iter().map(|k| model.get(*k).cloned()).collect();
            if guard(|| m.bulk_get(&ks)) != Out::Ok(exp) {
                return Err(("bulk_get".into(), format!("{}: bulk_get of a 140000-byte value differs from what was put", kt.name())));
            }
            check_state(&mut m, &ek, &model, kt, "bulk_put with a 140000-byte value")?;
            let exp = vec![model.remove(&ek[1])];
            if guard(|| m.bulk_delete(&[&ek[1][..]])) != Out::Ok(exp) {
                return Err(("bulk_delete".into(), format!("{}: bulk_delete of a 140000-byte value does not return it", kt.name())));
            }
            check_state(&mut m, &ek, &model, kt, "bulk_delete of a 140000-byte value")?;
            let _ = guard_plain(move || {
                drop(m);
                drop(db);
            });
        }
        // batches over keys of every pair of adjacent key slot classes: a key of class i and a short key are
        // stored in one batch, the first is deleted by a batch, a key of class i+1 is stored by a batch
        for i in 0..15usize {
            *evals += 1;
            clear_dir(dir);
            let (db, mut m) = match open_map::<T>(dir, MAP_NAME, &p) {
                Out::Ok(x) => x,
                o => return Err(("open".into(), format!("open {}", o.failed().unwrap_or_default()))),
            };
            let klen = |c: usize| if c >= 15 { 1000 } else { decoder::CLASSES[c] as usize - 8 };
            let mk = |tag: u8, len: usize| -> Vec<u8> {
                let mut k = vec![b'k', tag];
                while k.len() < len {
                    k.push(b'a' + (k.len() % 25) as u8);
                }
                k
            };
            let ka = mk(b'A', klen(i));
            let kb = mk(b'B', 6);
            let kc = mk(b'C', klen(i + 1));
            let all = vec![ka.clone(), kb.clone(), kc.clone()];
            let mut model: BTreeMap<Vec<u8>, Vec<u8>> = BTreeMap::new();
            let first: Vec<(&[u8], &[u8])> = vec![(&ka[..], b"va"), (&kb[..], b"vb")];
            for (k, val) in &first {
                model.insert(k.to_vec(), val.to_vec());
            }
            if guard(|| m.bulk_put(&first)) != Out::Ok(()) {
                return Err(("bulk_put".into(), format!("{}: bulk_put with a {}-byte key fails", kt.name(), ka.len())));
            }
            let exp = vec![model.remove(&ka)];
            if guard(|| m.bulk_delete(&[&ka[..]])) != Out::Ok(exp) {
                return Err(("bulk_delete".into(), format!("{}: bulk_delete of a {}-byte key differs from delete", kt.name(), ka.len())));
            }
            model.insert(kc.clone(), b"vc".to_vec());
            if guard(|| m.bulk_put(&[(&kc[..], &b"vc"[..])])) != Out::Ok(()) {
                return Err(("bulk_put".into(), format!("{}: bulk_put with a {}-byte key fails", kt.name(), kc.len())));
            }
            check_state(&mut m, &all, &model, kt, &format!("batches over keys of {} / 6 / {} bytes (key slot classes {} and {})", ka.len(), kc.len(), decoder::CLASSES[i], decoder::CLASSES[i + 1]))?;
            let _ = guard_plain(move || {
                drop(m);
                drop(db);
            });
        }
        // batches that free and reuse slots of the shared large class: two values (3000 and 1500 bytes) are
        // stored, both deleted in one batch (either order), then two 3000-byte values and a 1500-byte value
        // are stored in one batch; every entry must hold what the element-wise calls would leave
        for del_order in [[0usize, 1], [1, 0]] {
            *evals += 1;
            clear_dir(dir);
            let (db, mut m) = match open_map::<T>(dir, MAP_NAME, &p) {
                Out::Ok(x) => x,
                o => return Err(("open".into(), format!("open {}", o.failed().unwrap_or_default()))),
            };
            let mut model: BTreeMap<Vec<u8>, Vec<u8>> = BTreeMap::new();
            let v: Vec<Vec<u8>> = vec![pat(61, 3000), pat(62, 1500), pat(63, 3000), pat(64, 3000), pat(65, 1500)];
            let first: Vec<(&[u8], &[u8])> = vec![(&ek[0][..], &v[0][..]), (&ek[1][..], &v[1][..])];
            for (k, val) in &first {
                model.insert(k.to_vec(), val.to_vec());
            }
            if guard(|| m.bulk_put(&first)) != Out::Ok(()) {
                return Err(("bulk_put".into(), format!("{}: bulk_put of two large values fails", kt.name())));
            }
            let dk: Vec<&[u8]> = del_order.iter().map(|i| &ek[*i][..]).collect();
            let exp: Vec<Option<Vec<u8>>> = del_order.iter().map(|i| model.remove(&ek[*i])).collect();
            if guard(|| m.bulk_delete(&dk)) != Out::Ok(exp) {
                return Err(("bulk_delete".into(), format!("{}: bulk_delete of two large values differs from the element-wise deletes", kt.name())));
            }
            // in key order the first request is a big one: it has to skip the smaller slot at the head of the list
            let second: Vec<(&[u8], &[u8])> = vec![(&ek[0][..], &v[2][..]), (&ek[2][..], &v[3][..]), (&ek[3][..], &v[4][..])];
            for (k, val) in &second {
                model.insert(k.to_vec(), val.to_vec());
            }
            if guard(|| m.bulk_put(&second)) != Out::Ok(()) {
                return Err(("bulk_put".into(), format!("{}: bulk_put into freed large slots fails", kt.name())));
            }
            check_state(&mut m, &ek, &model, kt, "bulk_put into slots of the large class freed by a bulk_delete")?;
            let _ = guard_plain(move || {
                drop(m);
                drop(db);
            });
        }
    }
    let batches_rep = perms_upto(4, max_len, true);
    let batches_norep = perms_upto(4, max_len.min(4), false);
    for presence in 0..16u32 {
        // a fresh map in this presence state
        let fresh = |model: &mut BTreeMap<Vec<u8>, Vec<u8>>| -> Result<(abyssiniandb::filedb::FileDb, FileDbMap<T>), (String, String)> {
            clear_dir(dir);
            model.clear();
            let (db, mut m) = match open_map::<T>(dir, MAP_NAME, &p) {
                Out::Ok(x) => x,
                o => return Err(("open".into(), format!("open {}", o.failed().unwrap_or_default()))),
            };
            for (i, k) in keys.iter().enumerate() {
                if presence >> i & 1 == 1 {
                    let v = vals[(i + presence as usize) % vals.len()].clone();
                    if guard(|| m.put(&k[..], &v)) != Out::Ok(()) {
                        return Err(("put".into(), "put fails".into()));
                    }
                    model.insert(k.clone(), v);
                }
            }
            Ok((db, m))
        };
        let mut model: BTreeMap<Vec<u8>, Vec<u8>> = BTreeMap::new();
        // bulk_get / bulk_get_string / get_string: read only, one map for all batches
        {
            let (db, mut m) = fresh(&mut model)?;
            for b in &batches_rep {
                *evals += 1;
                let ks: Vec<&[u8]> = b.iter().map(|i| &keys[*i][..]).collect();
                let exp: Vec<Option<Vec<u8>>> = b.iter().map(|i| model.get(&keys[*i]).cloned()).collect();
                let r = guard(|| m.bulk_get(&ks));
                if r != Out::Ok(exp.clone()) {
                    return Err(("bulk_get".into(), format!("{}: bulk_get of keys #{:?} (presence mask {presence:04b}) returns {:?} but get of the i-th key gives {:?}", kt.name(), b, r, exp.iter().map(|v| v.as_ref().map(|x| show(x))).collect::<Vec<_>>())));
                }
                let r = guard(|| m.bulk_get_string(&ks));
                let exps: Vec<Option<String>> = exp.iter().map(|v| v.as_ref().map(lossy)).collect();
                if r != Out::Ok(exps) {
                    return Err(("bulk_get_string".into(), format!("{}: bulk_get_string of keys #{:?} differs from the lossy decoding of bulk_get", kt.name(), b)));
                }
            }
            for k in &keys {
                let r = guard(|| m.get_string(&k[..]));
                if r != Out::Ok(model.get(k).map(lossy)) {
                    return Err(("get_string".into(), format!("{}: get_string differs from the lossy decoding of get", kt.name())));
                }
            }
            let _ = guard_plain(move || {
                drop(m);
                drop(db);
            });
        }
        // calls that change the map: a fresh map per batch
        for b in &batches_norep {
            // bulk_delete
            {
                *evals += 1;
                let (db, mut m) = fresh(&mut model)?;
                let ks: Vec<&[u8]> = b.iter().map(|i| &keys[*i][..]).collect();
                let exp: Vec<Option<Vec<u8>>> = b.iter().map(|i| model.remove(&keys[*i])).collect();
                let r = guard(|| m.bulk_delete(&ks));
                if r != Out::Ok(exp.clone()) {
                    return Err(("bulk_delete".into(), format!("{}: bulk_delete of keys #{:?} (presence mask {presence:04b}) returns {:?} but delete of the i-th key gives {:?}", kt.name(), b, r, exp.iter().map(|v| v.as_ref().map(|x| show(x))).collect::<Vec<_>>())));
                }
                check_state(&mut m, &keys, &model, kt, "bulk_delete")?;
                let _ = guard_plain(move || {
                    drop(m);
                    drop(db);
                });
            }
            // bulk_delete_string
            {
                *evals += 1;
                let (db, mut m) = fresh(&mut model)?;
                let ks: Vec<&[u8]> = b.iter().map(|i| &keys[*i][..]).collect();
                let exp: Vec<Option<String>> = b.iter().map(|i| model.remove(&keys[*i]).as_ref().map(lossy)).collect();
                let r = guard(|| m.bulk_delete_string(&ks));
                if r != Out::Ok(exp) {
                    return Err(("bulk_delete_string".into(), format!("{}: bulk_delete_string of keys #{:?} differs from the lossy decoding of the element-wise deletes", kt.name(), b)));
                }
                check_state(&mut m, &keys, &model, kt, "bulk_delete_string")?;
                let _ = guard_plain(move || {
                    drop(m);
                    drop(db);
                });
            }
            // bulk_put
            {
                *evals += 1;
                let (db, mut m) = fresh(&mut model)?;
                let pairs: Vec<(&[u8], &[u8])> = b.iter().enumerate().map(|(j, i)| (&keys[*i][..], &vals[(j + 1) % vals.len()][..])).collect();
                for (k, v) in &pairs {
                    model.insert(k.to_vec(), v.to_vec());
                }
                let r = guard(|| m.bulk_put(&pairs));
                if r != Out::Ok(()) {
                    return Err(("bulk_put".into(), format!("{}: bulk_put {}", kt.name(), r.failed().unwrap_or_default())));
                }
                check_state(&mut m, &keys, &model, kt, "bulk_put")?;
                let _ = guard_plain(move || {
                    drop(m);
                    drop(db);
                });
            }
            // bulk_put_string (values must be strings)
            {
                *evals += 1;
                let (db, mut m) = fresh(&mut model)?;
                let svals = ["alpha", "", "grüße", "δ"];
                let pairs: Vec<(&[u8], String)> = b.iter().enumerate().map(|(j, i)| (&keys[*i][..], svals[j % 4].to_string())).collect();
                for (k, v) in &pairs {
                    model.insert(k.to_vec(), v.as_bytes().to_vec());
                }
                let r = guard(|| m.bulk_put_string(&pairs));
                if r != Out::Ok(()) {
                    return Err(("bulk_put_string".into(), format!("{}: bulk_put_string {}", kt.name(), r.failed().unwrap_or_default())));
                }
                check_state(&mut m, &keys, &model, kt, "bulk_put_string")?;
                let _ = guard_plain(move || {
                    drop(m);
                    drop(db);
                });
            }
        }
        // put_from_iter applies pairs in iteration order (repetition allowed: the last one wins)
        for b in batches_rep.iter().filter(|b| b.len() <= 3) {
            *evals += 1;
            let (db, mut m) = fresh(&mut model)?;
            let pairs: Vec<(T, Vec<u8>)> = b.iter().enumerate().map(|(j, i)| (T::from(&keys[*i][..]), vals[(j + 2) % vals.len()].clone())).collect();
            for (j, i) in b.iter().enumerate() {
                model.insert(keys[*i].clone(), vals[(j + 2) % vals.len()].clone());
            }
            let r = guard(|| m.put_from_iter(pairs.into_iter()));
            if r != Out::Ok(()) {
                return Err(("put_from_iter".into(), format!("{}: put_from_iter {}", kt.name(), r.failed().unwrap_or_default())));
            }
            check_state(&mut m, &keys, &model, kt, &format!("put_from_iter of keys #{b:?}"))?;
            let _ = guard_plain(move || {
                drop(m);
                drop(db);
            });
        }
        // long batches with repeated keys (the last pair of a key wins, whatever the batch length)
        for blen in [33usize, 64, 200] {
            *evals += 1;
            let (db, mut m) = fresh(&mut model)?;
            let mut pairs: Vec<(T, Vec<u8>)> = Vec::new();
            for j in 0..blen {
                let i = (j * 7 + j / 5) % 4;
                let v = format!("v{j}").into_bytes();
                model.insert(keys[i].clone(), v.clone());
                pairs.push((T::from(&keys[i][..]), v));
            }
            let r = guard(|| m.put_from_iter(pairs.into_iter()));
            if r != Out::Ok(()) {
                return Err(("put_from_iter".into(), format!("{}: put_from_iter {}", kt.name(), r.failed().unwrap_or_default())));
            }
            check_state(&mut m, &keys, &model, kt, &format!("put_from_iter of {blen} pairs over 4 keys"))?;
            // bulk_get of a long batch with repetition
            let ks: Vec<&[u8]> = (0..blen).map(|j| &keys[(j * 3 + j / 7) % 4][..]).collect();
            let exp: Vec<Option<Vec<u8>>> = (0..blen).map(|j| model.get(&keys[(j * 3 + j / 7) % 4]).cloned()).collect();
            if guard(|| m.bulk_get(&ks)) != Out::Ok(exp) {
                return Err(("bulk_get".into(), format!("{}: bulk_get of a batch of {blen} keys differs from the element-wise gets", kt.name())));
            }
            let _ = guard_plain(move || {
                drop(m);
                drop(db);
            });
        }
        // put_string / delete_string
        {
            *evals += 1;
            let (db, mut m) = fresh(&mut model)?;
            let r = guard(|| m.put_string(&keys[0][..], "grüße"));
            model.insert(keys[0].clone(), "grüße".as_bytes().to_vec());
            if r != Out::Ok(()) {
                return Err(("put_string".into(), format!("{}: put_string {}", kt.name(), r.failed().unwrap_or_default())));
            }
            check_state(&mut m, &keys, &model, kt, "put_string")?;
            for k in &keys {
                let exp = model.remove(k).as_ref().map(lossy);
                let r = guard(|| m.delete_string(&k[..]));
                if r != Out::Ok(exp) {
                    return Err(("delete_string".into(), format!("{}: delete_string differs from the lossy decoding of delete", kt.name())));
                }
            }
            check_state(&mut m, &keys, &model, kt, "delete_string")?;
            let _ = guard_plain(move || {
                drop(m);
                drop(db);
            });
        }
    }
    Ok(())
}

fn check_state<T: Kt>(m: &mut FileDbMap<T>, keys: &[Vec<u8>], model: &BTreeMap<Vec<u8>, Vec<u8>>, kt: KtId, after: &str) -> Result<(), (String, String)> {
    for k in keys {
        let r = guard(|| m.get(&k[..]));
        if r != Out::Ok(model.get(k).cloned()) {
            return Err((format!("{}:state", after.split(' ').next().unwrap_or(after)), format!("{}: after {after} the map differs from what the element-wise calls leave: get({}) gives {:?} instead of {:?}", kt.name(), show(k), r, model.get(k).map(|v| show(v)))));
        }
    }
    if guard(|| m.len()) != Out::Ok(model.len() as u64) {
        return Err((format!("{}:state", after.split(' ').next().unwrap_or(after)), format!("{}: after {after} len() is not {}", kt.name(), model.len())));
    }
    Ok(())
}

/// put_from_iter takes ready-made keys; callers make them with the owned conversion (`k.into()`), the
/// individual calls with the borrowed one: map A gets put(&q, v) for each pair, map B gets
/// put_from_iter(pairs.map(|(q, v)| (q.into(), v))); both must end up equal and answer get(&q)
macro_rules! owned_vs_borrowed {
    ($t:ty, $q:ty, $qs:expr, $dir:expr, $evals:expr, $what:expr) => {{
        let qs: Vec<$q> = $qs;
        let kt = <$t as Kt>::ID;
        clear_dir($dir);
        let da = $dir.join("a");
        let db_ = $dir.join("b");
        let _ = std::fs::create_dir_all(&da);
        let _ = std::fs::create_dir_all(&db_);
        let p = Params::buckets(2);
        let (dba, mut ma) = match open_map::<$t>(&da, MAP_NAME, &p) {
            Out::Ok(x) => x,
            o => return Err(("open".into(), format!("open {}", o.failed().unwrap_or_default()))),
        };
        let (dbb, mut mb) = match open_map::<$t>(&db_, MAP_NAME, &p) {
            Out::Ok(x) => x,
            o => return Err(("open".into(), format!("open {}", o.failed().unwrap_or_default()))),
        };
        let vals: Vec<Vec<u8>> = (0..qs.len()).map(|i| format!("value-{i}").into_bytes()).collect();
        for (q, v) in qs.iter().zip(vals.iter()) {
            *$evals += 1;
            if guard(|| ma.put(q, v)) != Out::Ok(()) {
                return Err(("owned-keys:put".into(), format!("{}: put with a {} key fails", kt.name(), $what)));
            }
        }
        let pairs: Vec<($t, Vec<u8>)> = qs.iter().cloned().zip(vals.iter().cloned()).map(|(q, v)| (q.into(), v)).collect();
        let r = guard(|| mb.put_from_iter(pairs.into_iter()));
        if r != Out::Ok(()) {
            return Err(("owned-keys:put_from_iter".into(), format!("{}: put_from_iter with keys made by into() from {} {}", kt.name(), $what, r.failed().unwrap_or_default())));
        }
        for (q, v) in qs.iter().zip(vals.iter()) {
            *$evals += 1;
            let ra = guard(|| ma.get(q));
            let rb = guard(|| mb.get(q));
            if ra != Out::Ok(Some(v.clone())) || rb != ra {
                return Err(("owned-keys:get".into(), format!("{}: after put_from_iter with keys made by into() from {} values, get(&key) gives {:?}; after the individual put(&key, ..) calls it gives {:?}", kt.name(), $what, rb, ra)));
            }
        }
        let ia = guard_plain(|| sorted_items(&mut ma));
        let ib = guard_plain(|| sorted_items(&mut mb));
        if ia != ib {
            return Err(("owned-keys:state".into(), format!("{}: put_from_iter with keys made by into() from {} values leaves other entries than the individual puts", kt.name(), $what)));
        }
        let _ = guard_plain(move || {
            drop(ma);
            drop(mb);
            drop(dba);
            drop(dbb);
        });
    }};
}

fn sorted_items<T: Kt>(m: &mut FileDbMap<T>) -> Vec<(Vec<u8>, Vec<u8>)> {
    let mut v: Vec<(Vec<u8>, Vec<u8>)> = m.iter().map(|(k, v)| (k.as_bytes().to_vec(), v)).collect();
    v.sort();
    v
}

fn c14_owned_keys(kt: KtId, dir: &std::path::Path, evals: &mut u64) -> Result<(), (String, String)> {
    use abyssiniandb::{DbBytes, DbString};
    let ints: Vec<u64> = vec![0, 1, 2, 255, 256, 258, 65535, 1 << 32, 0x0102_0304_0506_0708, u64::MAX - 1, u64::MAX];
    let strs: Vec<String> = vec!["".into(), "a".into(), "ab".into(), "grüße".into(), "a\0".into(), "mango".into(), "man".into()];
    let vecs: Vec<Vec<u8>> = vec![vec![], vec![0], vec![0, 0], vec![0xFF, 0xFE], vec![1, 2, 3, 4, 5, 6, 7, 8], vec![1, 2, 3, 4, 5, 6, 7, 8, 9]];
    match kt {
        KtId::Bytes => {
            owned_vs_borrowed!(DbBytes, u64, ints.clone(), dir, evals, "u64");
            owned_vs_borrowed!(DbBytes, String, strs.clone(), dir, evals, "String");
        }
        KtId::Str => {
            owned_vs_borrowed!(DbString, u64, ints.clone(), dir, evals, "u64");
            owned_vs_borrowed!(DbString, String, strs.clone(), dir, evals, "String");
        }
        KtId::U64 => {
            owned_vs_borrowed!(DbU64, u64, ints.clone(), dir, evals, "u64");
            owned_vs_borrowed!(DbU64, String, strs.clone(), dir, evals, "String");
        }
        KtId::I64 => {
            owned_vs_borrowed!(DbI64, i64, ints.iter().map(|x| *x as i64).collect(), dir, evals, "i64");
            owned_vs_borrowed!(DbI64, String, strs.clone(), dir, evals, "String");
        }
        KtId::Vu64 => {
            owned_vs_borrowed!(DbVu64, u64, ints.clone(), dir, evals, "u64");
        }
    }
    let _ = vecs;
    Ok(())
}

fn c14_job(payload: &[u8], _io: &mut WorkerIo) -> Vec<u8> {
    let mut r = Rd::new(payload);
    let kt = KtId::from_u8(r.u8());
    let max_len = r.u8() as usize;
    let scratch = Scratch::new("c14");
    let dir = scratch.fresh("d");
    let mut evals = 0u64;
    let res = c14_owned_keys(kt, &dir, &mut evals).and_then(|_| crate::with_kt!(kt, T => c14_type::<T>(&dir, max_len, &mut evals)));
    let mut out = Buf::new();
    match res {
        Ok(()) => result_ok(&mut out, evals, evals),
        Err((key, msg)) => result_bad(&mut out, &format!("{}:{key}", kt.name()), &msg, evals, payload),
    }
    out.0
}

pub fn c14(tier: &str, seed: u64) -> i32 {
    let mut ctx = Ctx::new("C14", tier, seed, "exploration");
    let thorough = ctx.thorough();
    ctx.pool.reinit(vec![]);
    ctx.pool.watchdog = std::time::Duration::from_secs(120);
    let max_len: u8 = if thorough { 8 } else { 4 };
    let jobs: Vec<Vec<u8>> = KtId::ALL
        .iter()
        .map(|k| {
            let mut b = Buf::new();
            b.u8(JOB_F_C14).u8(*k as u8).u8(max_len);
            b.0
        })
        .collect();
    let results = ctx.pool.map(&jobs, |i| i);
    let mut evals = 0u64;
    for (i, res) in results.into_iter().enumerate() {
        match res {
            JobResult::Done(b) => {
                let mut r = Rd::new(&b);
                if r.u8() == 0 {
                    evals += r.u64();
                } else {
                    let key = r.string();
                    let msg = r.string();
                    evals += r.u64();
                    let case = r.vec();
                    ctx.run.violation(Violation { prop: "C14".into(), key, message: msg.clone(), replay: Replay { engine: "C14".into(), config: vec![], case, story: vec![msg] } });
                }
            }
            JobResult::Crashed { how, .. } => {
                let msg = format!("bulk calls on key type {}: do not return normally: {how}", KtId::ALL[i].name());
                ctx.run.violation(Violation { prop: "C14".into(), key: format!("{}:crash", KtId::ALL[i].name()), message: msg.clone(), replay: Replay { engine: "C14".into(), config: vec![], case: jobs[i][1..].to_vec(), story: vec![msg] } });
            }
        }
    }
    eprintln!("[C14] batches evaluated: {evals}");
    ctx.run.set("evaluations", J::Int(evals as i64));
    ctx.run.set("distinct_nontrivial", J::Int(evals as i64));
    ctx.run.set("rule", J::s(&format!("complete enumeration per key type: a 4-key set whose sort order differs from the order of use (incl. the empty key and non-UTF-8 bytes for byte keys), each of its 16 presence states, every batch up to length {max_len}: bulk_get / bulk_get_string with repetition (all ordered batches), bulk_delete / bulk_delete_string / bulk_put / bulk_put_string without repetition (all ordered selections, each on a fresh map), put_from_iter with repetition up to length 3, put_string / get_string / delete_string; every returned vector is compared position by position with the element-wise model and the final map state with the model; values include invalid UTF-8 so that the lossy decoding is exercised. every (type, presence, call, batch) is distinct")));
    ctx.run.sample(J::s("bytes: presence 0101, bulk_get [#3,#0,#3,#1]"));
    ctx.run.sample(J::s("u64: presence 1111, bulk_delete [#2,#0] on a fresh map"));
    ctx.run.exhaustive = true;
    let run = ctx.run;
    drop(ctx.pool);
    run.finish()
}

pub fn worker_job(kind: u8, payload: &[u8], io: &mut WorkerIo) -> Vec<u8> {
    match kind {
        JOB_F_C09 => c09_job(payload, io),
        JOB_F_C10 => c10_job(payload, io),
        JOB_F_C13 => c13_job(payload, io),
        JOB_F_C14 => c14_job(payload, io),
        _ => crate::props_g::worker_job(kind, payload, io),
    }
}

pub fn _unused() {
    let _ = SplitMix(0).next();
    let _: Option<Box<dyn Fn(&abyssiniandb::DbBytes) -> u64>> = None;
    fn _f<T: DbMap<abyssiniandb::DbBytes>>() {}
}
