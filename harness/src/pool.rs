//! Worker processes: the subject only ever runs in children of the explorer, so that a hang, a
//! stack overflow or an abort of the subject is an observable outcome and not the end of the run.
//!
//! Frames parent -> child:  u32 len, payload (a job; first byte = job kind)
//! Frames child -> parent:  u8 tag (0 progress, 1 result), u32 len, payload
#![allow(dead_code)]

use std::io::{Read, Write};
use std::process::{Child, ChildStdin, Command, Stdio};
use std::sync::mpsc::{channel, Receiver, RecvTimeoutError};
use std::time::Duration;

pub const WATCHDOG: Duration = Duration::from_secs(10);
pub const CONFIRM_LIMIT: Duration = Duration::from_secs(30);

#[derive(Debug, Clone)]
pub enum JobResult {
    Done(Vec<u8>),
    /// the worker died or was killed by the watchdog while it worked on the job
    Crashed { progress: Option<u64>, how: String },
}

enum Frame {
    Progress(u64),
    Result(Vec<u8>),
    Eof,
}

struct Worker {
    child: Child,
    stdin: ChildStdin,
    rx: Receiver<Frame>,
}

fn spawn_worker(env: &[(String, String)], init: &[Vec<u8>]) -> Worker {
    // ABYV_WORKER_EXE in the pool's environment selects another build of the harness for the workers
    // (the dev-profile pass: debug assertions and overflow checks on in the subject and in rabuf)
    let exe = match env.iter().find(|(k, _)| k == "ABYV_WORKER_EXE") {
        Some((_, v)) => std::path::PathBuf::from(v),
        None => std::env::current_exe().expect("current_exe"),
    };
    let mut cmd = Command::new(exe);
    cmd.arg("worker").stdin(Stdio::piped()).stdout(Stdio::piped()).stderr(Stdio::inherit());
    for (k, v) in env {
        cmd.env(k, v);
    }
    let mut child = cmd.spawn().expect("cannot spawn worker");
    let stdin = child.stdin.take().unwrap();
    let mut stdout = child.stdout.take().unwrap();
    let (tx, rx) = channel();
    std::thread::spawn(move || loop {
        let mut hdr = [0u8; 5];
        if stdout.read_exact(&mut hdr).is_err() {
            let _ = tx.send(Frame::Eof);
            return;
        }
        let len = u32::from_le_bytes([hdr[1], hdr[2], hdr[3], hdr[4]]) as usize;
        let mut payload = vec![0u8; len];
        if stdout.read_exact(&mut payload).is_err() {
            let _ = tx.send(Frame::Eof);
            return;
        }
        let f = if hdr[0] == 0 {
            let mut a = [0u8; 8];
            a.copy_from_slice(&payload[..8]);
            Frame::Progress(u64::from_le_bytes(a))
        } else {
            Frame::Result(payload)
        };
        if tx.send(f).is_err() {
            return;
        }
    });
    let mut w = Worker { child, stdin, rx };
    for job in init {
        match w.run(job, CONFIRM_LIMIT) {
            JobResult::Done(_) => {}
            JobResult::Crashed { how, .. } => {
                eprintln!("MACHINERY: worker failed during initialisation: {how}");
                std::process::exit(2);
            }
        }
    }
    w
}

impl Worker {
    fn send(&mut self, job: &[u8]) -> std::io::Result<()> {
        self.stdin.write_all(&(job.len() as u32).to_le_bytes())?;
        self.stdin.write_all(job)?;
        self.stdin.flush()
    }
    fn run(&mut self, job: &[u8], limit: Duration) -> JobResult {
        if let Err(e) = self.send(job) {
            self.kill();
            return JobResult::Crashed { progress: None, how: format!("cannot send job: {e}") };
        }
        let mut progress = None;
        loop {
            match self.rx.recv_timeout(limit) {
                Ok(Frame::Progress(p)) => progress = Some(p),
                Ok(Frame::Result(r)) => return JobResult::Done(r),
                Ok(Frame::Eof) => {
                    let st = self.child.wait().map(|s| format!("{s}")).unwrap_or_default();
                    return JobResult::Crashed { progress, how: format!("worker died ({st})") };
                }
                Err(RecvTimeoutError::Timeout) => {
                    self.kill();
                    return JobResult::Crashed {
                        progress,
                        how: format!("no answer within {} s (hang); worker killed", limit.as_secs()),
                    };
                }
                Err(RecvTimeoutError::Disconnected) => {
                    self.kill();
                    return JobResult::Crashed { progress, how: "worker pipe closed".into() };
                }
            }
        }
    }
    fn kill(&mut self) {
        let _ = self.child.kill();
        let _ = self.child.wait();
    }
}

impl Drop for Worker {
    fn drop(&mut self) {
        self.kill();
    }
}

pub struct Pool {
    workers: Vec<Option<Worker>>,
    env: Vec<(String, String)>,
    init: Vec<Vec<u8>>,
    pub crashes: u64,
    pub watchdog: Duration,
}

impl Pool {
    pub fn new(n: usize, env: Vec<(String, String)>, init: Vec<Vec<u8>>) -> Pool {
        let mut workers = Vec::new();
        for _ in 0..n {
            workers.push(Some(spawn_worker(&env, &init)));
        }
        Pool { workers, env, init, crashes: 0, watchdog: WATCHDOG }
    }
    pub fn size(&self) -> usize {
        self.workers.len()
    }
    /// replace the initialisation jobs (sent again to every live worker)
    pub fn reinit(&mut self, init: Vec<Vec<u8>>) {
        self.init = init;
        let n = self.workers.len();
        self.workers.clear();
        for _ in 0..n {
            self.workers.push(Some(spawn_worker(&self.env, &self.init)));
        }
    }
    /// run all jobs; job i is executed by worker `assign(i) % size`; results in job order.
    pub fn map<F: Fn(usize) -> usize + Sync>(&mut self, jobs: &[Vec<u8>], assign: F) -> Vec<JobResult> {
        let n = self.workers.len();
        let mut results: Vec<Option<JobResult>> = vec![None; jobs.len()];
        let env = &self.env;
        let init = &self.init;
        let watchdog = self.watchdog;
        let assign = &assign;
        let mut per_worker: Vec<Vec<(usize, JobResult)>> = Vec::new();
        std::thread::scope(|s| {
            let mut handles = Vec::new();
            for (t, slot) in self.workers.iter_mut().enumerate() {
                handles.push(s.spawn(move || {
                    let mut out: Vec<(usize, JobResult)> = Vec::new();
                    for (i, job) in jobs.iter().enumerate() {
                        if assign(i) % n != t {
                            continue;
                        }
                        if slot.is_none() {
                            *slot = Some(spawn_worker(env, init));
                        }
                        let r = slot.as_mut().unwrap().run(job, watchdog);
                        if let JobResult::Crashed { .. } = r {
                            *slot = None;
                        }
                        out.push((i, r));
                    }
                    out
                }));
            }
            for h in handles {
                per_worker.push(h.join().expect("pool thread"));
            }
        });
        for v in per_worker {
            for (i, r) in v {
                if let JobResult::Crashed { .. } = r {
                    self.crashes += 1;
                }
                results[i] = Some(r);
            }
        }
        results.into_iter().map(|r| r.expect("job not run")).collect()
    }
    /// run one job alone in a fresh process with the long limit (confirmation of a crash)
    pub fn run_isolated(&self, job: &[u8]) -> JobResult {
        let mut w = spawn_worker(&self.env, &self.init);
        w.run(job, CONFIRM_LIMIT)
    }
    /// what a fresh worker needs (for running isolated jobs from several threads)
    pub fn spec(&self) -> (Vec<(String, String)>, Vec<Vec<u8>>) {
        (self.env.clone(), self.init.clone())
    }
    /// run one job alone in a fresh process with extra environment
    pub fn run_isolated_env(&self, job: &[u8], extra: &[(String, String)], limit: Duration) -> JobResult {
        let mut env = self.env.clone();
        env.extend_from_slice(extra);
        let mut w = spawn_worker(&env, &self.init);
        w.run(job, limit)
    }
}

// ---------------------------------------------------------------------------------------------
// child side

pub struct WorkerIo {
    out: std::io::Stdout,
    quiet: bool,
}

impl WorkerIo {
    /// an io that reports nothing (single-process replay)
    pub fn sink() -> WorkerIo {
        WorkerIo { out: std::io::stdout(), quiet: true }
    }
    pub fn progress(&mut self, cursor: u64) {
        if self.quiet {
            return;
        }
        let mut f = Vec::with_capacity(13);
        f.push(0u8);
        f.extend_from_slice(&8u32.to_le_bytes());
        f.extend_from_slice(&cursor.to_le_bytes());
        let mut l = self.out.lock();
        let _ = l.write_all(&f);
        let _ = l.flush();
    }
    fn result(&mut self, payload: &[u8]) {
        let mut l = self.out.lock();
        let _ = l.write_all(&[1u8]);
        let _ = l.write_all(&(payload.len() as u32).to_le_bytes());
        let _ = l.write_all(payload);
        let _ = l.flush();
    }
}

/// the main loop of a worker process: read jobs from stdin until it closes
pub fn worker_main(mut handle: impl FnMut(&[u8], &mut WorkerIo) -> Vec<u8>) {
    let mut io = WorkerIo { out: std::io::stdout(), quiet: false };
    let stdin = std::io::stdin();
    let mut inp = stdin.lock();
    loop {
        let mut hdr = [0u8; 4];
        if inp.read_exact(&mut hdr).is_err() {
            return;
        }
        let len = u32::from_le_bytes(hdr) as usize;
        let mut job = vec![0u8; len];
        if inp.read_exact(&mut job).is_err() {
            return;
        }
        let res = handle(&job, &mut io);
        io.result(&res);
    }
}

/// run one job alone in a fresh process described by `spec` (see Pool::spec)
pub fn run_isolated_spec(spec: &(Vec<(String, String)>, Vec<Vec<u8>>), job: &[u8]) -> JobResult {
    let mut w = spawn_worker(&spec.0, &spec.1);
    w.run(job, CONFIRM_LIMIT)
}
