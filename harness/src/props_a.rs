//! The checks that live on engine A (image-graph search): C01 C02 C05 C06 C08 C15 C17 C18
//! (C04 and C12 add their own runs on top of it, see props_d.rs / props_g.rs).
#![allow(dead_code)]

use crate::alphabet::*;
use crate::decoder::Clause;
use crate::engine_a::*;
use crate::pool::{JobResult, Pool};
use crate::report::Run;
use crate::subject::*;
use crate::util::{Buf, Rd, J};

pub struct Ctx {
    pub run: Run,
    pub pool: Pool,
    pub seed: u64,
    pub runs: Vec<J>,
    pub states: u64,
    pub transitions: u64,
    pub all_closed: bool,
    pub fresh_process: bool,
}

impl Ctx {
    pub fn new(prop: &str, tier: &str, seed: u64, level: &str) -> Ctx {
        let n = std::thread::available_parallelism().map(|n| n.get()).unwrap_or(8).min(16);
        Ctx { run: Run::new(prop, tier, seed, level), pool: Pool::new(n, vec![], vec![]), seed, runs: Vec::new(), states: 0, transitions: 0, all_closed: true, fresh_process: false }
    }
    pub fn thorough(&self) -> bool {
        self.run.thorough()
    }
    /// switch the workers to the dev-profile build of the harness (debug assertions and overflow
    /// checks on, in the subject and in rabuf); false if that build does not exist
    pub fn use_dev_workers(&mut self) -> bool {
        let exe = crate::report::verif_root().join("harness/target/verifdev/abyv");
        if !exe.exists() {
            self.run.notes.push("dev-profile pass skipped: harness/target/verifdev/abyv not built".into());
            return false;
        }
        let n = self.pool.size();
        self.pool = Pool::new(n, vec![("ABYV_WORKER_EXE".to_string(), exe.display().to_string())], vec![]);
        self.run.notes.push("a dev-profile pass (debug assertions + overflow checks on) was run with workers from harness/target/verifdev".into());
        true
    }
    pub fn finish_model_checking(mut self, rule: &str, nontrivial_counters: &[&str]) -> i32 {
        let mut nt: i64 = 0;
        for c in nontrivial_counters {
            nt += self.run.get(c);
        }
        self.run.set("states", J::Int(self.states as i64));
        self.run.set("transitions", J::Int(self.transitions as i64));
        self.run.set("traces_validated_against_impl", J::Int(self.transitions as i64));
        self.run.set("evaluations", J::Int((self.transitions as i64 + self.states as i64).max(nt)));
        self.run.set("distinct_nontrivial", J::Int(nt));
        self.run.set("rule", J::s(rule));
        self.run.set("runs", J::Arr(self.runs.clone()));
        self.run.exhaustive = self.all_closed && self.run.exhaustive;
        self.run.set("exhaustive", J::Bool(self.run.exhaustive));
        self.run.set("worker_crashes_handled", J::Int(self.pool.crashes as i64));
        self.run.assumptions.push("the three files of a map are its complete persistent state: a transition starts from a process that knows nothing else (true by construction: open reads only these files)".into());
        self.run.assumptions.push("the filesystem (tmpfs under /dev/shm) is healthy".into());
        drop(self.pool);
        self.run.finish()
    }
}

pub const JOB_A_SEED: u8 = 12;

/// script steps for building start images with the real code
#[derive(Clone, Debug)]
pub enum Step {
    Put(Vec<u8>, Vec<u8>),
    Del(Vec<u8>),
    Reopen,
}

pub fn seed_job(kt: KtId, p: &Params, steps: &[Step]) -> Vec<u8> {
    let mut b = Buf::new();
    b.u8(JOB_A_SEED).u8(kt as u8);
    p.enc(&mut b);
    b.u32(steps.len() as u32);
    for s in steps {
        match s {
            Step::Put(k, v) => {
                b.u8(0).bytes(k).bytes(v);
            }
            Step::Del(k) => {
                b.u8(1).bytes(k);
            }
            Step::Reopen => {
                b.u8(2);
            }
        }
    }
    b.0
}

/// worker side of JOB_A_SEED: returns status byte, message, packed image
pub fn run_seed(payload: &[u8]) -> Vec<u8> {
    let mut r = Rd::new(payload);
    let kt = KtId::from_u8(r.u8());
    let p = Params::dec(&mut r);
    let n = r.u32();
    let mut steps = Vec::new();
    for _ in 0..n {
        match r.u8() {
            0 => {
                let k = r.vec();
                let v = r.vec();
                steps.push(Step::Put(k, v));
            }
            1 => steps.push(Step::Del(r.vec())),
            _ => steps.push(Step::Reopen),
        }
    }
    let scratch = Scratch::new("seed");
    let dir = scratch.fresh("d");
    let res: Result<Image, String> = crate::with_kt!(kt, T => {
        use abyssiniandb::DbXxx;
        (|| -> Result<Image, String> {
            let mut h = match open_map::<T>(&dir, MAP_NAME, &p) {
                Out::Ok(x) => Some(x),
                o => return Err(format!("open {}", o.failed().unwrap_or_default())),
            };
            for (i, s) in steps.iter().enumerate() {
                match s {
                    Step::Put(k, v) => {
                        let m = &mut h.as_mut().unwrap().1;
                        let r = guard(|| m.put(&k[..], v));
                        if r != Out::Ok(()) {
                            return Err(format!("step {i} put {}", r.failed().unwrap_or_default()));
                        }
                    }
                    Step::Del(k) => {
                        let m = &mut h.as_mut().unwrap().1;
                        let r = guard(|| m.delete(&k[..]));
                        if !r.is_ok() {
                            return Err(format!("step {i} delete {}", r.failed().unwrap_or_default()));
                        }
                    }
                    Step::Reopen => {
                        h = None;
                        h = match open_map::<T>(&dir, MAP_NAME, &p) {
                            Out::Ok(x) => Some(x),
                            o => return Err(format!("step {i} reopen {}", o.failed().unwrap_or_default())),
                        };
                    }
                }
            }
            drop(h);
            Image::read(&dir, MAP_NAME).map_err(|e| format!("read: {e}"))
        })()
    });
    let mut b = Buf::new();
    match res {
        Ok(img) => {
            b.u8(0).str("").bytes(&img.pack());
        }
        Err(e) => {
            b.u8(1).str(&e).bytes(&[]);
        }
    }
    b.0
}

/// single-process replay of a scripted image: run the script with the real code, decode the result
pub fn replay_seed(job: &[u8]) -> i32 {
    let b = run_seed(&job[1..]);
    let mut r = Rd::new(&b);
    if r.u8() != 0 {
        println!("REPLAY VIOLATION: the script fails: {}", r.string());
        return 1;
    }
    let _ = r.string();
    let img = Image::unpack(&r.vec());
    let d = crate::decoder::decode(&img.htx, &img.key, &img.val);
    if d.errors.is_empty() {
        println!("REPLAY: the script runs and the files decode ({} entries); compare with the story of the replay file", d.contents.len());
        0
    } else {
        for (c, m) in &d.errors {
            println!("REPLAY VIOLATION [decode:{}]: {m}", c.name());
        }
        1
    }
}

pub fn build_image(pool: &Pool, kt: KtId, p: &Params, steps: &[Step]) -> Result<Image, String> {
    match pool.run_isolated(&seed_job(kt, p, steps)) {
        JobResult::Done(b) => {
            let mut r = Rd::new(&b);
            let st = r.u8();
            let msg = r.string();
            let img = r.vec();
            if st == 0 {
                Ok(Image::unpack(&img))
            } else {
                Err(msg)
            }
        }
        JobResult::Crashed { how, .. } => Err(format!("process {how}")),
    }
}

/// the empty map as the real code creates it
pub fn empty_start(ctx: &mut Ctx, cfg: &ACfg) -> Option<Start> {
    match build_image(&ctx.pool, cfg.kt, &cfg.params[0], &[]) {
        Ok(image) => Some(Start { label: format!("empty map created by the real code ({})", cfg.params[0].ht.label()), image, code: vec![0; cfg.keys.len()] }),
        Err(e) => {
            let msg = format!("creating an empty {} map with {} fails: {e}", cfg.kt.name(), cfg.params[0].label());
            let key = format!("create:{}:{}", cfg.params[0].ht.label(), if e.contains("hang") { "hang" } else if e.contains("process") { "abort" } else { "fail" });
            ctx.run.violation(crate::report::Violation {
                prop: cfg.prop.clone(),
                key,
                message: msg.clone(),
                replay: crate::report::Replay { engine: "seed".into(), config: seed_job(cfg.kt, &cfg.params[0], &[]), case: vec![], story: vec![msg] },
            });
            None
        }
    }
}

pub fn run_closure(ctx: &mut Ctx, label: &str, cfg: &ACfg, starts: Vec<Start>, max_states: usize, max_secs: f64) -> Option<BfsStats> {
    if starts.is_empty() {
        return None;
    }
    let t0 = ctx.run.elapsed();
    let caps = Caps { max_states, max_secs: t0 + max_secs, fresh_process: ctx.fresh_process };
    let st = bfs(cfg, &starts, &caps, &mut ctx.pool, &mut ctx.run);
    ctx.states += st.states as u64;
    ctx.transitions += st.transitions;
    if !st.closed {
        ctx.all_closed = false;
    }
    let mut j = cfg.describe();
    j.push("label", J::s(label));
    j.push("start_images", J::Int(starts.len() as i64));
    j.push("states", J::Int(st.states as i64));
    j.push("transitions", J::Int(st.transitions as i64));
    j.push("closure_reached", J::Bool(st.closed));
    j.push("depth_completed", J::Int(st.depth_completed as i64));
    j.push("max_depth", J::Int(st.max_depth as i64));
    j.push("duplicate_hits", J::Int(st.dup_hits as i64));
    j.push("wall_s", J::Num(ctx.run.elapsed() - t0));
    if !st.closed {
        j.push("cap", J::s(&format!("state cap {max_states} or time cap {max_secs}s hit; fully covered up to depth {}", st.depth_completed)));
    }
    eprintln!("[{}] {label}: states={} transitions={} closed={} depth={} {:.1}s", cfg.prop, st.states, st.transitions, st.closed, st.max_depth, ctx.run.elapsed() - t0);
    ctx.runs.push(j);
    Some(st)
}

/// the standard small alphabets: (label, key lengths in one bucket, extra free key?, value lengths)
pub struct Alpha {
    pub label: &'static str,
    pub colliding: Vec<usize>,
    pub other: Vec<usize>,
    pub vals: Vec<u32>,
}

pub fn make_cfg(prop: &str, kt: KtId, n_buckets: u64, a: &Alpha, seed: u64) -> ACfg {
    let p0 = Params::buckets(n_buckets);
    let mut keys: Vec<Vec<u8>> = Vec::new();
    // the empty key lands where it lands: if it is among the colliding keys, the others join its bucket
    let bucket = if a.colliding.contains(&0) && kt.arbitrary_bytes_ok() { crate::alphabet::bucket_of(&[], n_buckets) } else { 3 % n_buckets };
    for len in &a.colliding {
        let k = keys_in_bucket(kt, n_buckets, bucket, 1, *len, seed.wrapping_add(keys.len() as u64), &keys);
        keys.extend(k);
    }
    for len in &a.other {
        let b2 = (bucket + 2) % n_buckets;
        let k = keys_in_bucket(kt, n_buckets, b2, 1, *len, seed.wrapping_add(100 + keys.len() as u64), &keys);
        keys.extend(k);
    }
    let absent = absent_keys(kt, seed, &keys);
    ACfg::new(prop, kt, vec![p0], keys, absent, a.vals.clone(), seed)
}

pub fn alphas_small() -> Vec<Alpha> {
    vec![
        Alpha { label: "2 colliding keys x {5,40} bytes", colliding: vec![5, 5], other: vec![], vals: vec![5, 40] },
        Alpha { label: "3 colliding keys (record sizes on class edges) x {20}", colliding: vec![11, 12, 4], other: vec![], vals: vec![20] },
        Alpha { label: "empty key + a key colliding with it x {0,14,15}", colliding: vec![0, 3], other: vec![], vals: vec![0, 14, 15] },
        Alpha { label: "2 colliding keys x {1000,2500} (shared large list)", colliding: vec![6, 6], other: vec![], vals: vec![1000, 2500] },
    ]
}

pub fn alphas_thorough() -> Vec<Alpha> {
    vec![
        Alpha { label: "2 colliding keys x {5,20,40}", colliding: vec![5, 5], other: vec![], vals: vec![5, 20, 40] },
        Alpha { label: "3 colliding keys x {5,40}", colliding: vec![5, 11, 12], other: vec![], vals: vec![5, 40] },
        Alpha { label: "2 colliding + 1 other x {1000,1100,2500}", colliding: vec![6, 6], other: vec![4], vals: vec![1000, 1100, 2500] },
        Alpha { label: "3 colliding keys x {0,15,200,1500}", colliding: vec![4, 11, 19], other: vec![], vals: vec![0, 15, 200, 1500] },
    ]
}

/// value length that lands in slot class i (0..15) / key length whose record lands in key class i
/// the largest value length whose record still fits slot class i (one byte more lands in the next class)
fn class_value_len(i: usize) -> u32 {
    // i = 15: the 1024-byte slot, i = 16: the next size of the large class (1152 bytes)
    let c = if i >= 16 { 1152 } else { crate::decoder::CLASSES[i] as u64 };
    let mut len = c;
    while crate::decoder::value_slot_for(len) > c {
        len -= 1;
    }
    len as u32
}
/// the largest key length whose record (chain tail, small offsets) still fits key slot class i
/// a key length whose record lands in key slot class i whatever the widths of its two offsets are in a
/// small file (the crate sizes a key record from the raw offsets: 1..3 bytes each below 2 MiB)
fn class_key_len(i: usize) -> usize {
    if i >= 15 {
        return 1000;
    }
    crate::decoder::CLASSES[i] as usize - 8
}

/// one small closure per pair of adjacent slot classes, for values and for keys: every free-list head
/// of both files is used (a slot of class i is freed when the entry grows to class i+1, and reused)
pub fn class_ladder(ctx: &mut Ctx, prop: &str, oracles: u32, clauses: u32, reopen: bool, step: usize) {
    let seed = ctx.seed;
    for i in (0..16).step_by(step) {
        // the largest length that fits class i, one byte more (first length of class i+1), and the largest of class i+1
        let a = Alpha { label: "class ladder (values)", colliding: vec![5, 6], other: vec![], vals: vec![class_value_len(i), class_value_len(i) + 1, class_value_len(i + 1)] };
        let mut cfg = make_cfg(prop, KtId::Bytes, 8, &a, seed);
        cfg.oracles = oracles;
        cfg.clauses = clauses;
        if reopen {
            cfg.params = reopen_params(cfg.params[0]);
        }
        let starts: Vec<Start> = empty_start(ctx, &cfg).into_iter().collect();
        run_closure(ctx, &format!("class ladder: 2 colliding keys x values of {}, {} and {} bytes (value slots {} and {})", a.vals[0], a.vals[1], a.vals[2], crate::decoder::CLASSES[i], if i + 1 < 16 { crate::decoder::CLASSES[i + 1] } else { 1152 }), &cfg, starts, 100_000, 20.0);
        if ctx.run.too_many() || !ctx.run.violations.is_empty() {
            return;
        }
    }
    class_ladder_keys(ctx, prop, oracles, clauses, reopen, step);
}

/// closure over explicit keys (a one-bucket table, so that all of them share a chain)
pub fn explicit_keys_closure(ctx: &mut Ctx, prop: &str, kt: KtId, keys: Vec<Vec<u8>>, vals: Vec<u32>, oracles: u32, clauses: u32, label: &str, cap: usize, secs: f64) {
    let seed = ctx.seed;
    let a = Alpha { label: "explicit keys", colliding: vec![5], other: vec![], vals };
    let mut cfg = make_cfg(prop, kt, 1, &a, seed);
    cfg.init_vals = vec![None; keys.len()];
    cfg.absent.retain(|k| !keys.contains(k));
    cfg.keys = keys;
    cfg.oracles = oracles;
    cfg.clauses = clauses;
    let starts: Vec<Start> = empty_start(ctx, &cfg).into_iter().collect();
    run_closure(ctx, label, &cfg, starts, cap, secs);
}

/// string keys that are not valid UTF-8, in one chain; values that make the key record move
pub fn non_utf8_closure(ctx: &mut Ctx, prop: &str, oracles: u32, clauses: u32) {
    explicit_keys_closure(ctx, prop, KtId::Str, vec![vec![0xFF, 0xFE, b'k'], vec![b'a', 0xC3]], vec![5, 1000], oracles, clauses, "2 string keys that are not valid UTF-8 x {5,1000} [string, 1 bucket]", 100_000, 20.0);
}

/// integer keys at the ends of the domain (9-byte vu64 encodings, negative i64), in one chain
pub fn int_boundary_closures(ctx: &mut Ctx, prop: &str, oracles: u32, clauses: u32) {
    for (kt, xs) in [(KtId::Vu64, [u64::MAX, 1u64 << 56, 127]), (KtId::U64, [u64::MAX, 0, 1u64 << 56]), (KtId::I64, [u64::MAX, 1u64 << 63, 0])] {
        let keys: Vec<Vec<u8>> = xs.iter().map(|x| crate::alphabet::int_key(kt, *x)).collect();
        explicit_keys_closure(ctx, prop, kt, keys, vec![5], oracles, clauses, &format!("3 integer keys at the ends of the domain {:?} x {{5}} [{}, 1 bucket]", xs, kt.name()), 100_000, 20.0);
        if !ctx.run.violations.is_empty() {
            return;
        }
    }
}

/// a closure that starts from a scripted image holding live records of every slot class and of several
/// sizes of the shared large class (more than 16 different slot sizes per file)
pub fn many_sizes_closure(ctx: &mut Ctx, prop: &str, oracles: u32, clauses: u32, cap: usize, secs: f64) {
    let seed = ctx.seed;
    let kt = KtId::Bytes;
    let a = Alpha { label: "many sizes", colliding: vec![7, 7], other: vec![], vals: vec![3, 1100] };
    let mut cfg = make_cfg(prop, kt, 8, &a, seed);
    let mut steps: Vec<Step> = Vec::new();
    let mut extras: Vec<(Vec<u8>, Vec<u8>)> = Vec::new();
    let mut vlens: Vec<usize> = (0..15).map(|i| class_value_len(i) as usize).collect();
    vlens.extend([1200usize, 1400, 1700, 2000, 3000]);
    let mut klens: Vec<usize> = (0..15).map(class_key_len).collect();
    klens.extend([1100usize, 1300, 1600, 2200, 2900]);
    for (i, (vl, kl)) in vlens.iter().zip(klens.iter()).enumerate() {
        let mut k = vec![b'A' + (i as u8 % 26); (*kl).max(2)];
        k[0] = b'#';
        k[1] = i as u8;
        let v = vec![i as u8 + 1; *vl];
        steps.push(Step::Put(k.clone(), v.clone()));
        extras.push((k, v));
    }
    // two more of them are deleted again, so that free lists are populated too
    for i in [3usize, 17] {
        let (k, _) = extras.remove(i);
        steps.push(Step::Del(k));
    }
    cfg.absent.retain(|k| !extras.iter().any(|e| &e.0 == k));
    cfg.extras = extras.into_iter().collect();
    cfg.oracles = oracles;
    cfg.clauses = clauses;
    cfg.slot_slack = 2;
    match build_image(&ctx.pool, kt, &cfg.params[0], &steps) {
        Ok(image) => {
            let start = Start { label: "scripted image with live records of every slot class and five sizes of the large class".into(), image, code: vec![0; cfg.keys.len()] };
            run_closure(ctx, "from an image with more than 16 different slot sizes per file: 2 colliding keys x {3,1100} [bytes]", &cfg, vec![start], cap, secs);
        }
        Err(e) => {
            let msg = format!("building a map with records of every slot class fails: {e}");
            ctx.run.violation(crate::report::Violation { prop: prop.to_string(), key: "many-sizes:script-fails".into(), message: msg.clone(), replay: crate::report::Replay { engine: "seed".into(), config: seed_job(kt, &cfg.params[0], &steps), case: vec![], story: vec![msg] } });
        }
    }
}

/// chains of three colliding keys across the 16 KiB boundary (capped): a record whose predecessor has to
/// move while its own link is rewritten (cascading re-link)
pub fn three_key_seeds(ctx: &mut Ctx, prop: &str, oracles: u32, clauses: u32, secs: f64) {
    let specs3 = vec![
        crate::props_c08::SeedSpec { file: "val", boundary: 16 * 1024, eps: 16, free_slots: 0, val_pad: 0 },
        crate::props_c08::SeedSpec { file: "key", boundary: 16 * 1024, eps: 16, free_slots: 0, val_pad: 0 },
        crate::props_c08::SeedSpec { file: "key", boundary: 16 * 1024, eps: 0, free_slots: 2, val_pad: 0 },
    ];
    crate::props_c08::seeded_group(ctx, prop, oracles, clauses, 3, vec![3, 200], &specs3, 60_000, secs);
}

/// closure over keys that live in the given buckets of an n-bucket table (the highest occupied bucket decides
/// where the bitmap scan of a traversal ends)
pub fn bucket_keys_closure(ctx: &mut Ctx, prop: &str, n: u64, buckets: &[u64], vals: Vec<u32>, oracles: u32, ro_mode: u8, cap: usize, secs: f64) {
    let seed = ctx.seed;
    let a = Alpha { label: "keys in chosen buckets", colliding: vec![5], other: vec![], vals };
    let mut cfg = make_cfg(prop, KtId::Bytes, n, &a, seed);
    let mut keys: Vec<Vec<u8>> = Vec::new();
    for b in buckets {
        let k = keys_in_bucket(KtId::Bytes, n, *b, 1, 5, seed.wrapping_add(*b), &keys);
        keys.extend(k);
    }
    cfg.init_vals = vec![None; keys.len()];
    cfg.absent.retain(|k| !keys.contains(k));
    cfg.keys = keys;
    cfg.oracles = oracles;
    cfg.ro_mode = ro_mode;
    let starts: Vec<Start> = empty_start(ctx, &cfg).into_iter().collect();
    run_closure(ctx, &format!("keys in buckets {:?} of {n} x {:?} [bytes]", buckets, cfg.vals), &cfg, starts, cap, secs);
}

/// the key half of the class ladder alone
pub fn class_ladder_keys(ctx: &mut Ctx, prop: &str, oracles: u32, clauses: u32, reopen: bool, step: usize) {
    let seed = ctx.seed;
    for i in (0..15).step_by(step) {
        // a key of slot class i, a short key, a key of class i+1: a freed slot of class i with a live record
        // behind it, then a request for class i+1 (and the other way round)
        let a = Alpha { label: "class ladder (keys)", colliding: vec![class_key_len(i), 6, class_key_len(i + 1)], other: vec![], vals: vec![3] };
        let mut cfg = make_cfg(prop, KtId::Bytes, 8, &a, seed);
        cfg.oracles = oracles;
        cfg.clauses = clauses;
        if reopen {
            cfg.params = reopen_params(cfg.params[0]);
        }
        let starts: Vec<Start> = empty_start(ctx, &cfg).into_iter().collect();
        run_closure(ctx, &format!("class ladder: colliding keys of {}, 6 and {} bytes (key slots {} and {}) x {{3}}", a.colliding[0], a.colliding[2], crate::decoder::CLASSES[i], crate::decoder::CLASSES[i + 1]), &cfg, starts, 100_000, 20.0);
        if ctx.run.too_many() || !ctx.run.violations.is_empty() {
            return;
        }
    }
}

fn standard_runs(ctx: &mut Ctx, prop: &str, oracles: u32, clauses: u32, ro_mode: u8, reopen: bool, kts_small: &[KtId], quick_cap: usize) {
    let seed = ctx.seed;
    let thorough = ctx.thorough();
    for kt in kts_small {
        for (ai, a) in alphas_small().iter().enumerate() {
            if *kt != KtId::Bytes && ai != 0 && !(thorough && (ai == 1 || ai == 3)) {
                continue;
            }
            let mut cfg = make_cfg(prop, *kt, 8, a, seed);
            cfg.oracles = oracles;
            cfg.clauses = clauses;
            cfg.ro_mode = ro_mode;
            if reopen {
                cfg.params = reopen_params(cfg.params[0]);
            }
            let starts: Vec<Start> = empty_start(ctx, &cfg).into_iter().collect();
            run_closure(ctx, &format!("{} [{}]", a.label, kt.name()), &cfg, starts, quick_cap, 60.0);
            if ctx.run.too_many() {
                return;
            }
        }
    }
    if thorough {
        for a in alphas_thorough().iter() {
            let mut cfg = make_cfg(prop, KtId::Bytes, 8, a, seed);
            cfg.oracles = oracles;
            cfg.clauses = clauses;
            cfg.ro_mode = if ro_mode >= 2 { 1 } else { ro_mode };
            if reopen {
                cfg.params = reopen_params(cfg.params[0]);
            }
            let starts: Vec<Start> = empty_start(ctx, &cfg).into_iter().collect();
            run_closure(ctx, &format!("{} [bytes]", a.label), &cfg, starts, 2_000_000, 240.0);
            if ctx.run.too_many() {
                return;
            }
        }
    }
}

const RULE_A: &str = "explicit-state search over on-disk images of the real code: state = exact bytes of the three files, transition = open -> one put/delete of the alphabet -> drop all handles, breadth first with exact duplicate detection until the frontier is empty (closure) or the stated cap; every transition is an execution of the implementation";

pub fn c01(tier: &str, seed: u64) -> i32 {
    let mut ctx = Ctx::new("C01", tier, seed, "model_checking");
    standard_runs(&mut ctx, "C01", O_API, 0, 0, false, &KtId::ALL, 200_000);
    if ctx.run.violations.is_empty() {
        // histories that start where offsets are about to need one more byte (16 KiB): seeded images
        let specs = vec![
            crate::props_c08::SeedSpec { file: "val", boundary: 16 * 1024, eps: 16, free_slots: 0 , val_pad: 0},
            crate::props_c08::SeedSpec { file: "key", boundary: 16 * 1024, eps: 16, free_slots: 2, val_pad: 0 },
            crate::props_c08::SeedSpec { file: "key", boundary: 128 * 1024, eps: 0, free_slots: 2, val_pad: 1200 },
        ];
        crate::props_c08::seeded_group(&mut ctx, "C01", O_API, 0, 2, vec![3, 200], &specs, 60_000, 10.0);
        // chain links of three bytes whose last byte is 3 (key file beyond 192 KiB) next to two-byte value offsets,
        // three keys: one can sit in a low freed slot and point to one beyond the boundary
        let specs200 = vec![crate::props_c08::SeedSpec { file: "key", boundary: 200 * 1024, eps: 0, free_slots: 2, val_pad: 1201 }];
        crate::props_c08::seeded_group(&mut ctx, "C01", O_API, 0, 3, vec![3], &specs200, 30_000, 6.0);
        three_key_seeds(&mut ctx, "C01", O_API, 0, 3.0);
        if ctx.run.violations.is_empty() {
            crate::props_f::edge_sweep(&mut ctx, "C01");
        }
        // a table size that is not a power of two is requested (the table really has 16 buckets)
        let a = &alphas_small()[0];
        let mut cfg = make_cfg("C01", KtId::Bytes, 16, a, seed);
        cfg.params[0].ht = HtP::Buckets(10);
        cfg.oracles = O_API;
        let mut starts: Vec<Start> = empty_start(&mut ctx, &cfg).into_iter().collect();
        // and a start image whose first entry was stored by the session that created the table
        let v0 = cfg.value(0, 0);
        if let Ok(image) = build_image(&ctx.pool, KtId::Bytes, &cfg.params[0], &[Step::Put(cfg.keys[0].clone(), v0)]) {
            let mut code = vec![0u8; cfg.keys.len()];
            code[0] = 1;
            starts.push(Start { label: "map created with BucketsSize(10), first entry stored by the creating session".into(), image, code });
        }
        run_closure(&mut ctx, &format!("{} [bytes, BucketsSize(10) requested]", a.label), &cfg, starts, 100_000, 20.0);
        non_utf8_closure(&mut ctx, "C01", O_API, 0);
        // byte keys that are prefixes of each other (and the empty key) in one chain
        explicit_keys_closure(&mut ctx, "C01", KtId::Bytes, vec![b"ab".to_vec(), b"abc".to_vec(), Vec::new()], vec![5], O_API, 0, "3 byte keys `ab`, `abc` and the empty key x {5} [bytes, 1 bucket]", 100_000, 10.0);
    }
    if ctx.run.violations.is_empty() {
        let step = if ctx.thorough() { 1 } else { 4 };
        class_ladder(&mut ctx, "C01", O_API, 0, false, step);
        if !ctx.thorough() && ctx.run.violations.is_empty() {
            // the key half is cheap: every pair of adjacent key slot classes in the quick tier too
            class_ladder_keys(&mut ctx, "C01", O_API, 0, false, 1);
        }
    }
    crate::engine_b::c01_live(&mut ctx);
    if ctx.run.violations.is_empty() && (ctx.thorough() || std::env::var("ABYV_DEV_PASS").is_ok()) && ctx.use_dev_workers() {
        // the same closures and sequences under dev semantics (what `cargo test` builds)
        let tier = std::mem::replace(&mut ctx.run.tier, "quick".into());
        standard_runs(&mut ctx, "C01", O_API, 0, 0, false, &[KtId::Bytes, KtId::U64], 200_000);
        crate::engine_b::c01_live(&mut ctx);
        ctx.run.tier = tier;
    }
    let rule = format!("{RULE_A}; oracle: every call's result and, on every state, get/includes_key of every alphabet key and of never-stored keys, len and is_empty equal the BTreeMap model; non-trivial = states whose expansion was preceded by at least one update (api_reads counts the reads compared); plus engine B: every call sequence up to the stated depth on live handles without re-open");
    ctx.finish_model_checking(&rule, &["api_reads"])
}

pub fn c02(tier: &str, seed: u64) -> i32 {
    let mut ctx = Ctx::new("C02", tier, seed, "model_checking");
    standard_runs(&mut ctx, "C02", O_API | O_REOPEN | O_ITER | O_ALT_PARAMS, 0, 0, true, &KtId::ALL, 200_000);
    if ctx.run.violations.is_empty() {
        class_ladder(&mut ctx, "C02", O_API | O_REOPEN | O_ALT_PARAMS, 0, true, 1);
    }
    if ctx.run.violations.is_empty() {
        let specs = vec![
            crate::props_c08::SeedSpec { file: "val", boundary: 16 * 1024, eps: 16, free_slots: 0, val_pad: 0 },
            crate::props_c08::SeedSpec { file: "key", boundary: 16 * 1024, eps: 16, free_slots: 2, val_pad: 0 },
            crate::props_c08::SeedSpec { file: "key", boundary: 128 * 1024, eps: 0, free_slots: 2, val_pad: 1200 },
        ];
        crate::props_c08::seeded_group(&mut ctx, "C02", O_API | O_REOPEN, 0, 2, vec![3, 200], &specs, 60_000, 10.0);
        let specs200 = vec![crate::props_c08::SeedSpec { file: "key", boundary: 200 * 1024, eps: 0, free_slots: 2, val_pad: 1201 }];
        crate::props_c08::seeded_group(&mut ctx, "C02", O_API | O_REOPEN, 0, 3, vec![3], &specs200, 30_000, 6.0);
        three_key_seeds(&mut ctx, "C02", O_API | O_REOPEN, 0, 3.0);
    }
    if ctx.run.violations.is_empty() {
        // the same small closure once more with every state expanded by a freshly spawned process
        let alphas = alphas_small();
        let a = &alphas[0];
        let mut cfg = make_cfg("C02", KtId::Bytes, 8, a, seed);
        cfg.oracles = O_API | O_REOPEN | O_ITER | O_ALT_PARAMS;
        cfg.params = reopen_params(cfg.params[0]);
        let starts: Vec<Start> = empty_start(&mut ctx, &cfg).into_iter().collect();
        ctx.fresh_process = true;
        run_closure(&mut ctx, &format!("{} [bytes] every state expanded in a freshly spawned process", a.label), &cfg, starts, 200_000, 120.0);
        ctx.fresh_process = false;
    }
    crate::engine_b::c02_live(&mut ctx);
    let rule = format!("{RULE_A}; every transition is a clean close + re-open; on every state the map is additionally re-opened under every other parameter set of the list and get of every key, absent keys, len and the full iteration multiset are compared with the model; consecutive transitions run in different worker processes; non-trivial = re-open sessions under a different parameter set");
    ctx.finish_model_checking(&rule, &["reopen_sessions"])
}

pub fn c05(tier: &str, seed: u64) -> i32 {
    let mut ctx = Ctx::new("C05", tier, seed, "model_checking");
    let clauses = clause_mask(&[Clause::Header, Clause::HtxSize, Clause::Chain, Clause::Placement, Clause::DupKey, Clause::ValueRef, Clause::Overflow, Clause::Count, Clause::Bitmap]);
    standard_runs(&mut ctx, "C05", O_DEC | O_DEC_CONTENTS | O_ALT_PARAMS, clauses, 0, true, &KtId::ALL, 200_000);
    if ctx.run.violations.is_empty() {
        class_ladder(&mut ctx, "C05", O_DEC | O_DEC_CONTENTS, clauses, false, 1);
    }
    if ctx.run.violations.is_empty() {
        // keys whose length needs a two-byte length field (128..1016 bytes), records on slot edges
        let mut lens_list = vec![vec![250usize, 251]];
        if ctx.thorough() {
            lens_list.push(vec![122, 123, 378]);
        }
        for lens in lens_list {
            let a = Alpha { label: "colliding keys with two-byte length fields", colliding: lens.clone(), other: vec![], vals: vec![5, 1000] };
            let mut cfg = make_cfg("C05", KtId::Bytes, 8, &a, seed);
            cfg.oracles = O_DEC | O_DEC_CONTENTS;
            cfg.clauses = clauses;
            let starts: Vec<Start> = empty_start(&mut ctx, &cfg).into_iter().collect();
            run_closure(&mut ctx, &format!("colliding keys of {:?} bytes x {{5,1000}} [bytes]", lens), &cfg, starts, 60_000, 15.0);
        }
    }
    if ctx.run.violations.is_empty() {
        c05_big_counts(&mut ctx);
    }
    if ctx.run.violations.is_empty() {
        // string keys that are not valid UTF-8, in one chain; values that make the key record move
        let a = Alpha { label: "2 keys x {5,40}", colliding: vec![5], other: vec![5], vals: vec![5, 40, 1000] };
        let mut cfg = make_cfg("C05", KtId::Str, 1, &a, seed);
        cfg.keys = vec![vec![0xFF, 0xFE, b'k'], vec![b'a', 0xC3]];
        cfg.init_vals = vec![None; 2];
        cfg.oracles = O_DEC | O_DEC_CONTENTS;
        cfg.clauses = clauses;
        let starts: Vec<Start> = empty_start(&mut ctx, &cfg).into_iter().collect();
        run_closure(&mut ctx, "2 string keys that are not valid UTF-8 x {5,40,1000} [string, 1 bucket]", &cfg, starts, 100_000, 20.0);
    }
    crate::props_c08::seeded_runs(&mut ctx, "C05", O_DEC | O_DEC_CONTENTS, clauses, true);
    if ctx.run.violations.is_empty() {
        crate::props_f::edge_sweep(&mut ctx, "C05");
    }
    if ctx.run.violations.is_empty() {
        let t = ctx.thorough();
        crate::engine_c::sync_point_pass(&mut ctx, "C05", if t { 5 } else { 4 }, if t { 200.0 } else { 15.0 });
    }
    let rule = format!("{RULE_A}; invariant evaluated on every state by the independent decoder: acyclic chains, keys hash to their bucket, no duplicate key, stored count = reachable keys, bitmap covers non-empty buckets, value references in bounds and unshared, records within their slots, decoded contents = model; non-trivial = states with a chain of >= 2 keys or a non-empty free list");
    ctx.finish_model_checking(&rule, &["states_with_chain_len_ge2", "states_with_nonempty_free_list"])
}

/// C05: maps with many entries (the stored item count crosses one and two byte boundaries), built by
/// the real code in one session with deletes in between, decoded by the independent decoder
pub fn c05_big_counts(ctx: &mut Ctx) {
    let p = Params::buckets(1024);
    let mut jobs = Vec::new();
    let targets: [u64; 6] = [255, 256, 257, 65_535, 65_536, 65_537];
    for n in targets {
        let mut steps: Vec<Step> = Vec::new();
        for i in 0..n + 3 {
            steps.push(Step::Put(i.to_be_bytes().to_vec(), vec![(i % 251) as u8; (i % 5) as usize]));
        }
        for i in 0..3u64 {
            steps.push(Step::Del((i * 7).to_be_bytes().to_vec()));
        }
        jobs.push(seed_job(KtId::Bytes, &p, &steps));
    }
    ctx.pool.reinit(vec![]);
    let old = ctx.pool.watchdog;
    ctx.pool.watchdog = std::time::Duration::from_secs(60);
    let results = ctx.pool.map(&jobs, |i| i);
    ctx.pool.watchdog = old;
    for (i, r) in results.iter().enumerate() {
        let n = targets[i];
        let mut complain = |key: &str, msg: String| {
            ctx.run.violation(crate::report::Violation { prop: "C05".into(), key: key.to_string(), message: msg.clone(), replay: crate::report::Replay { engine: "seed".into(), config: jobs[i].clone(), case: vec![], story: vec![format!("one session: put {} distinct keys, delete 3 of them, close", n + 3), msg] } });
        };
        match r {
            JobResult::Done(b) => {
                let mut rd = Rd::new(b);
                if rd.u8() != 0 {
                    complain("many-entries:script-fails", format!("building a map of {n} entries fails: {}", rd.string()));
                    continue;
                }
                let _ = rd.string();
                let img = Image::unpack(&rd.vec());
                let d = crate::decoder::decode(&img.htx, &img.key, &img.val);
                if let Some((c, m)) = d.errors.first() {
                    complain(&format!("many-entries:decode:{}", c.name()), format!("a map of {n} entries does not decode (clause {}): {m}", c.name()));
                } else if d.contents.len() as u64 != n {
                    complain("many-entries:contents", format!("a map built from {} puts and 3 deletes decodes to {} entries", n + 3, d.contents.len()));
                }
            }
            JobResult::Crashed { how, .. } => complain("many-entries:crash", format!("building a map of {n} entries does not return normally: {how}")),
        }
    }
    ctx.run.add("decoded_states", targets.len() as i64);
    ctx.states += targets.len() as u64;
    ctx.transitions += targets.iter().map(|n| n + 6).sum::<u64>();
    ctx.runs.push(J::obj(vec![("label", J::s("scripted maps of 255, 256, 257, 65535, 65536, 65537 entries (1024 buckets, long chains), decoded: stored item count = reachable keys etc."))]));
}

pub fn alphas_large() -> Vec<Alpha> {
    vec![
        Alpha { label: "2 colliding keys x {1000,1500,3000} (first-fit large list)", colliding: vec![6, 6], other: vec![], vals: vec![1000, 1500, 3000] },
        Alpha { label: "2 keys x {10,1100,2500} (small and large mixed)", colliding: vec![5], other: vec![5], vals: vec![10, 1100, 2500] },
    ]
}

/// C06: exhaustive sweep of the first-fit decision on the shared large free list: every free-list
/// shape of 1..=4 slots over three slot sizes (all orders, with repetition) x every request size.
/// The list is built by the real code (put the fillers, delete them in the order that yields the
/// shape), then one put of the request size is made; both images are decoded.
pub fn c06_first_fit_sweep(ctx: &mut Ctx) {
    let seed = ctx.seed;
    let kt = KtId::Bytes;
    let p = Params::buckets(8);
    let sizes: [u64; 3] = [1000, 2000, 3000]; // slots of 1152, 2176, 3072 bytes
    let requests: [u64; 5] = [500, 1000, 2000, 3000, 4000];
    let mut shapes: Vec<Vec<usize>> = Vec::new();
    let mut level: Vec<Vec<usize>> = vec![vec![]];
    for _ in 0..4 {
        let mut next = Vec::new();
        for s in &level {
            for x in 0..3 {
                let mut q = s.clone();
                q.push(x);
                next.push(q);
            }
        }
        shapes.extend(next.iter().cloned());
        level = next;
    }
    let fk = |i: usize| format!("filler-{i}").into_bytes();
    let mut jobs: Vec<Vec<u8>> = Vec::new();
    let mut cases: Vec<(Vec<usize>, u64)> = Vec::new();
    for shape in &shapes {
        // list order (head first) = shape; the head is the slot freed last
        let mut steps: Vec<Step> = Vec::new();
        for (i, s) in shape.iter().enumerate() {
            steps.push(Step::Put(fk(i), value_bytes(seed, i as u64, 1, sizes[*s] as usize)));
        }
        steps.push(Step::Put(b"keeper".to_vec(), value_bytes(seed, 9, 9, 40)));
        for i in (0..shape.len()).rev() {
            steps.push(Step::Del(fk(i)));
        }
        jobs.push(seed_job(kt, &p, &steps));
        for r in requests {
            let mut st = steps.clone();
            st.push(Step::Put(b"request".to_vec(), value_bytes(seed, 7, 7, r as usize)));
            jobs.push(seed_job(kt, &p, &st));
            cases.push((shape.clone(), r));
        }
    }
    ctx.pool.reinit(vec![]);
    let results = ctx.pool.map(&jobs, |i| i);
    let img = |r: &JobResult| -> Option<Image> {
        if let JobResult::Done(b) = r {
            let mut rd = Rd::new(b);
            if rd.u8() == 0 {
                let _ = rd.string();
                return Some(Image::unpack(&rd.vec()));
            }
        }
        None
    };
    let per = requests.len() + 1;
    let mut evaluated = 0i64;
    let mut reused = 0i64;
    for (si, shape) in shapes.iter().enumerate() {
        let before = img(&results[si * per]);
        for (ri, r) in requests.iter().enumerate() {
            let after = img(&results[si * per + 1 + ri]);
            evaluated += 1;
            let label = format!("large free list (head first) of slots for values {:?}, then put of {} bytes", shape.iter().map(|x| sizes[*x]).collect::<Vec<_>>(), r);
            let mut complain = |key: &str, msg: String| {
                let mut st: Vec<u8> = Vec::new();
                st.extend_from_slice(&jobs[si * per + 1 + ri]);
                ctx.run.violation(crate::report::Violation { prop: "C06".into(), key: key.to_string(), message: format!("{label}: {msg}"), replay: crate::report::Replay { engine: "seed".into(), config: st, case: vec![], story: vec![label.clone(), msg] } });
            };
            let (b, a) = match (&before, &after) {
                (Some(b), Some(a)) => (b, a),
                _ => {
                    complain("first-fit:script-fails", "the script does not run to its end".into());
                    continue;
                }
            };
            let db = crate::decoder::decode(&b.htx, &b.key, &b.val);
            let da = crate::decoder::decode(&a.htx, &a.key, &a.val);
            if let Some((c, m)) = db.errors.first().or(da.errors.first()) {
                complain(&format!("first-fit:decode:{}", c.name()), format!("files do not decode (clause {}): {m}", c.name()));
                continue;
            }
            let need = crate::decoder::value_slot_for(*r);
            let fits: Vec<u64> = db.valf.free[15].iter().copied().filter(|o| db.valf.slots[o].size as u64 >= need).collect();
            let grew = da.valf.file_len > db.valf.file_len;
            if need >= 1024 {
                if !fits.is_empty() && grew {
                    complain("first-fit:extended-despite-free-slot", format!("the value file grew from {} to {} bytes although the free slot at {} fits the request of {need} bytes", db.valf.file_len, da.valf.file_len, fits[0]));
                }
                if !fits.is_empty() {
                    reused += 1;
                }
                let expect_free = db.valf.free[15].len() - if fits.is_empty() { 0 } else { 1 };
                if da.valf.free[15].len() != expect_free {
                    complain("first-fit:free-list-length", format!("the large free list has {} members after the put, {expect_free} expected ({} before)", da.valf.free[15].len(), db.valf.free[15].len()));
                }
            }
        }
    }
    ctx.run.add("first_fit_cases", evaluated);
    ctx.run.add("first_fit_cases_reusing_a_slot", reused);
    ctx.states += jobs.len() as u64;
    ctx.transitions += jobs.len() as u64;
    eprintln!("[C06] first-fit sweep: {} list shapes x {} requests = {evaluated} cases, {reused} reuse a slot", shapes.len(), requests.len());
    ctx.runs.push(J::obj(vec![
        ("label", J::s("first-fit sweep: every shape of the shared large free list with 1..4 members over 3 slot sizes (all orders, with repetition) x 5 request sizes; list built and request served by the real code, both images decoded: no growth while a fitting free slot exists, exactly one member leaves the list, partition and tiling hold")),
        ("shapes", J::Int(shapes.len() as i64)),
        ("cases", J::Int(evaluated)),
    ]));
}

pub fn c06(tier: &str, seed: u64) -> i32 {
    let mut ctx = Ctx::new("C06", tier, seed, "model_checking");
    let clauses = clause_mask(&[Clause::Tiling, Clause::FreeList, Clause::Partition, Clause::Overflow, Clause::Padding]);
    let o = O_DEC | O_ALLOC | O_STATS;
    standard_runs(&mut ctx, "C06", o, clauses, 0, false, &[KtId::Bytes], 200_000);
    let mut more = alphas_large();
    if ctx.thorough() {
        more.push(Alpha { label: "3 keys x {1000,1100,1500,2500,3000}", colliding: vec![6, 6], other: vec![6], vals: vec![1000, 1100, 1500, 2500, 3000] });
        more.push(Alpha { label: "2 long keys (large key slots) x {8,1200}", colliding: vec![1000, 1500], other: vec![], vals: vec![8, 1200] });
    } else {
        more.push(Alpha { label: "2 long keys (large key slots) x {8}", colliding: vec![1000, 1500], other: vec![], vals: vec![8] });
    }
    for a in more.iter() {
        let mut cfg = make_cfg("C06", KtId::Bytes, 8, a, seed);
        cfg.oracles = o;
        cfg.clauses = clauses;
        let starts: Vec<Start> = empty_start(&mut ctx, &cfg).into_iter().collect();
        let (cap, secs) = if ctx.thorough() { (1_500_000, 300.0) } else { (60_000, 25.0) };
        run_closure(&mut ctx, &format!("{} [bytes]", a.label), &cfg, starts, cap, secs);
    }
    if ctx.run.violations.is_empty() {
        c06_first_fit_sweep(&mut ctx);
    }
    if ctx.run.violations.is_empty() {
        class_ladder(&mut ctx, "C06", o, clauses, false, 1);
    }
    if ctx.run.violations.is_empty() {
        let specs = vec![
            crate::props_c08::SeedSpec { file: "val", boundary: 16 * 1024, eps: 16, free_slots: 2 , val_pad: 0},
            crate::props_c08::SeedSpec { file: "key", boundary: 16 * 1024, eps: 0, free_slots: 2, val_pad: 0 },
            crate::props_c08::SeedSpec { file: "key", boundary: 128 * 1024, eps: 0, free_slots: 2, val_pad: 1200 },
        ];
        crate::props_c08::seeded_group(&mut ctx, "C06", o, clauses, 2, vec![3, 200], &specs, 60_000, 10.0);
        three_key_seeds(&mut ctx, "C06", o, clauses, 3.0);
        if ctx.run.violations.is_empty() {
            crate::props_f::edge_sweep(&mut ctx, "C06");
        }
    }
    let rule = format!("{RULE_A}; on every state: slots tile .key/.val from 192 to EOF, every slot live-once xor free-once, free lists acyclic and class-correct, statistics calls terminate; on every transition: a file grows only if no slot that was free before and after the call is suitable (same class below 1024, any member >= the size on the shared list), and the slot count per slot size stays <= keys+1; closure reached = the reachable image set (hence file size) is finite over all histories of the alphabet; non-trivial = transitions after which a file grew plus states with a non-empty free list");
    ctx.finish_model_checking(&rule, &["key_file_grew", "val_file_grew", "states_with_nonempty_free_list"])
}

pub fn c15(tier: &str, seed: u64) -> i32 {
    let mut ctx = Ctx::new("C15", tier, seed, "model_checking");
    let thorough = ctx.thorough();
    // every single read-only call (and in thorough all ordered pairs) on the small closure
    {
        let a = &alphas_small()[0];
        let mut cfg = make_cfg("C15", KtId::Bytes, 8, a, seed);
        cfg.oracles = O_RO;
        cfg.params = reopen_params(cfg.params[0]);
        cfg.ro_mode = if thorough { 3 } else { 2 };
        let starts: Vec<Start> = empty_start(&mut ctx, &cfg).into_iter().collect();
        run_closure(&mut ctx, &format!("{} [bytes] every read-only call alone{}", a.label, if thorough { " and all ordered pairs" } else { "" }), &cfg, starts, 200_000, 400.0);
    }
    // the combined session on the other closures and table sizes
    for n in [8u64, 16, 64, 128, 1024] {
        for (ai, a) in alphas_small().iter().enumerate() {
            if ai == 0 && n == 8 {
                continue;
            }
            if !thorough && n != 8 && ai != 1 {
                continue;
            }
            let mut cfg = make_cfg("C15", KtId::Bytes, n, a, seed);
            cfg.oracles = O_RO;
        cfg.params = reopen_params(cfg.params[0]);
            cfg.ro_mode = if n == 8 && !thorough { 2 } else { 1 };
            if !thorough && n == 8 && ai == 3 {
                cfg.ro_mode = 1;
            }
            let starts: Vec<Start> = empty_start(&mut ctx, &cfg).into_iter().collect();
            run_closure(&mut ctx, &format!("{} [bytes, {n} buckets]", a.label), &cfg, starts, 100_000, 60.0);
        }
    }
    for n in [1u64, 2, 4] {
        let a = Alpha { label: "2 keys x {5,40}", colliding: vec![5], other: vec![5], vals: vec![5, 40] };
        let mut cfg = make_cfg("C15", KtId::Bytes, n, &a, seed);
        cfg.oracles = O_RO;
        cfg.params = reopen_params(cfg.params[0]);
        cfg.ro_mode = 2;
        let starts: Vec<Start> = empty_start(&mut ctx, &cfg).into_iter().collect();
        run_closure(&mut ctx, &format!("{} [bytes, {n} bucket(s)] every read-only call alone", a.label), &cfg, starts, 100_000, 30.0);
    }
    {
        // a key file whose next record straddles the 128 KiB buffer-chunk boundary
        let specs = vec![crate::props_c08::SeedSpec { file: "key", boundary: 128 * 1024, eps: 8, free_slots: 0, val_pad: 0 }];
        crate::props_c08::seeded_group_ro(&mut ctx, "C15", O_RO, 1, 2, vec![3, 200], &specs, 20_000, 10.0);
    }
    {
        // values beyond 128 KiB (three-byte size field, more than one buffer chunk)
        let a = Alpha { label: "2 colliding keys x {5,140000}", colliding: vec![5, 5], other: vec![], vals: vec![5, 140_000] };
        let mut cfg = make_cfg("C15", KtId::Bytes, 8, &a, seed);
        cfg.oracles = O_RO;
        cfg.params = reopen_params(cfg.params[0]);
        cfg.ro_mode = 1;
        let starts: Vec<Start> = empty_start(&mut ctx, &cfg).into_iter().collect();
        run_closure(&mut ctx, &format!("{} [bytes]", a.label), &cfg, starts, if thorough { 20_000 } else { 400 }, if thorough { 120.0 } else { 8.0 });
    }
    // the highest occupied bucket is the last of its group of eight but not of its group of 64
    bucket_keys_closure(&mut ctx, "C15", 128, &[7, 23], vec![5], O_RO, 2, 2_000, 10.0);
    bucket_keys_closure(&mut ctx, "C15", 64, &[15, 39], vec![5], O_RO, 1, 2_000, 10.0);
    // a traversal that is resumed in the middle of a group of eight buckets (after bucket 6) while the bitmap holds large numbers
    bucket_keys_closure(&mut ctx, "C15", 16, &[6, 15], vec![5], O_RO, 2, 2_000, 10.0);
    {
        // a key longer than 64 KiB
        let a = Alpha { label: "1 key of 70000 bytes + 1 short key x {5}", colliding: vec![70_000], other: vec![5], vals: vec![5] };
        let mut cfg = make_cfg("C15", KtId::Bytes, 8, &a, seed);
        cfg.oracles = O_RO;
        cfg.ro_mode = 1;
        let starts: Vec<Start> = empty_start(&mut ctx, &cfg).into_iter().collect();
        run_closure(&mut ctx, &format!("{} [bytes]", a.label), &cfg, starts, 200, 6.0);
    }
    {
        // a table larger than one buffer chunk of bitmap (more than 131072 buckets)
        let a = Alpha { label: "1 key x {5}", colliding: vec![5], other: vec![], vals: vec![5] };
        let mut cfg = make_cfg("C15", KtId::Bytes, 262_144, &a, seed);
        cfg.oracles = O_RO;
        cfg.ro_mode = 2;
        let starts: Vec<Start> = empty_start(&mut ctx, &cfg).into_iter().collect();
        run_closure(&mut ctx, "1 key x {5} [bytes, 262144 buckets] every read-only call alone", &cfg, starts, 1_000, 40.0);
    }
    for kt in [KtId::Str, KtId::U64, KtId::I64, KtId::Vu64] {
        let a = &alphas_small()[0];
        let mut cfg = make_cfg("C15", kt, 8, a, seed);
        cfg.oracles = O_RO;
        cfg.params = reopen_params(cfg.params[0]);
        cfg.ro_mode = 1;
        let starts: Vec<Start> = empty_start(&mut ctx, &cfg).into_iter().collect();
        run_closure(&mut ctx, &format!("{} [{}]", a.label, kt.name()), &cfg, starts, 100_000, 60.0);
    }
    let rule = format!("{RULE_A}; self-loop check on every reachable state: open, a read-only session, drop, then the three files must be byte-identical to the state and the contents unchanged; sessions = each of the {} read-only calls alone (and all ordered pairs in the thorough tier) on the first closure, one combined session elsewhere; non-trivial = read-only sessions executed", RO_CALLS.len());
    ctx.finish_model_checking(&rule, &["ro_sessions"])
}

pub fn c17(tier: &str, seed: u64) -> i32 {
    let mut ctx = Ctx::new("C17", tier, seed, "model_checking");
    let o = O_DEC | O_STATS;
    let clauses = 0; // structural complaints belong to C05/C06; here only the figures and termination
    standard_runs(&mut ctx, "C17", o, clauses, 0, false, &[KtId::Bytes, KtId::Str], 200_000);
    for a in alphas_large().iter() {
        let mut cfg = make_cfg("C17", KtId::Bytes, 8, a, seed);
        cfg.oracles = o;
        cfg.clauses = clauses;
        let starts: Vec<Start> = empty_start(&mut ctx, &cfg).into_iter().collect();
        let (cap, secs) = if ctx.thorough() { (1_000_000, 240.0) } else { (40_000, 20.0) };
        run_closure(&mut ctx, &format!("{} [bytes]", a.label), &cfg, starts, cap, secs);
    }
    if ctx.run.violations.is_empty() {
        // states in which key records have been relocated (16 KiB seeds)
        let specs = vec![
            crate::props_c08::SeedSpec { file: "val", boundary: 16 * 1024, eps: 16, free_slots: 0 , val_pad: 0},
            crate::props_c08::SeedSpec { file: "key", boundary: 16 * 1024, eps: 16, free_slots: 2 , val_pad: 0},
        ];
        crate::props_c08::seeded_group(&mut ctx, "C17", o, clauses, 2, vec![3, 200], &specs, 60_000, 10.0);
        class_ladder(&mut ctx, "C17", o, clauses, false, 3);
    }
    for lens in [vec![1000usize, 1500], vec![class_key_len(13), class_key_len(14), 1000]] {
        // freed key slots of the largest exact class and of the shared large class
        let a = Alpha { label: "long keys", colliding: lens.clone(), other: vec![], vals: vec![8] };
        let mut cfg = make_cfg("C17", KtId::Bytes, 8, &a, seed);
        cfg.oracles = o;
        cfg.clauses = clauses;
        let starts: Vec<Start> = empty_start(&mut ctx, &cfg).into_iter().collect();
        run_closure(&mut ctx, &format!("colliding keys of {:?} bytes x {{8}} [bytes]", lens), &cfg, starts, 60_000, 15.0);
    }
    if ctx.run.violations.is_empty() {
        many_sizes_closure(&mut ctx, "C17", o, clauses, 20_000, 10.0);
    }
    if ctx.run.violations.is_empty() {
        // lengths that are multiples of 64 KiB (a length kept in fewer bits would read as zero)
        let a = Alpha { label: "2 colliding keys x {5,65536,131072}", colliding: vec![5, 5], other: vec![], vals: vec![5, 65_536, 131_072] };
        let mut cfg = make_cfg("C17", KtId::Bytes, 8, &a, seed);
        cfg.oracles = o;
        cfg.clauses = clauses;
        let starts: Vec<Start> = empty_start(&mut ctx, &cfg).into_iter().collect();
        run_closure(&mut ctx, &format!("{} [bytes]", a.label), &cfg, starts, 600, 6.0);
    }
    if ctx.run.violations.is_empty() {
        let t = ctx.thorough();
        crate::engine_c::stats_at_sync_pass(&mut ctx, if t { 6 } else { 5 }, if t { 200.0 } else { 15.0 });
    }
    // tables below 8 buckets (the bitmap is shorter than a byte per 8 buckets there)
    for n in [1u64, 2, 4] {
        let a = Alpha { label: "2 keys x {5,40}", colliding: vec![5], other: vec![5], vals: vec![5, 40] };
        let mut cfg = make_cfg("C17", KtId::Bytes, n, &a, seed);
        cfg.oracles = o;
        cfg.clauses = clauses;
        let starts: Vec<Start> = empty_start(&mut ctx, &cfg).into_iter().collect();
        run_closure(&mut ctx, &format!("{} [bytes, {n} bucket(s)]", a.label), &cfg, starts, 100_000, 30.0);
    }
    // a table where several buckets are occupied (filling figure)
    {
        let a = Alpha { label: "3 keys in 3 different buckets of 16 x {0,9}", colliding: vec![3], other: vec![4], vals: vec![0, 9] };
        let mut cfg = make_cfg("C17", KtId::Bytes, 16, &a, seed);
        let more = keys_in_bucket(KtId::Bytes, 16, 9, 1, 5, seed, &cfg.keys);
        cfg.keys.extend(more);
        cfg.init_vals = vec![None; cfg.keys.len()];
        cfg.oracles = o;
        cfg.clauses = clauses;
        let starts: Vec<Start> = empty_start(&mut ctx, &cfg).into_iter().collect();
        run_closure(&mut ctx, &format!("{} [bytes]", a.label), &cfg, starts, 200_000, 60.0);
    }
    let rule = format!("{RULE_A}; on every state each statistics call is compared with the figure recomputed from the independently decoded files: free-slot counts per class = free-list lengths, key/value slot-size and length histograms = live non-empty keys/values, filling = non-empty buckets and per-mille; calls run under the watchdog (termination); non-trivial = states with a non-empty free list or an empty key/value");
    ctx.finish_model_checking(&rule, &["states_with_nonempty_free_list", "stats_states_with_empty_key_or_value"])
}

pub fn c18(tier: &str, seed: u64) -> i32 {
    let mut ctx = Ctx::new("C18", tier, seed, "model_checking");
    standard_runs(&mut ctx, "C18", O_DOUBLE | O_XPROC, 0, 0, false, &KtId::ALL, 200_000);
    for n in [1u64, 2, 4, 16, 128] {
        let a = Alpha { label: "2 keys x {5,40}", colliding: vec![5], other: vec![5], vals: vec![5, 40] };
        let mut cfg = make_cfg("C18", KtId::Bytes, n, &a, seed);
        cfg.oracles = O_DOUBLE | O_XPROC;
        let starts: Vec<Start> = empty_start(&mut ctx, &cfg).into_iter().collect();
        run_closure(&mut ctx, &format!("{} [bytes, {n} bucket(s)]", a.label), &cfg, starts, 100_000, 30.0);
    }
    {
        // keys whose records fill their 16-byte slot exactly, each the tail of its own chain, with value
        // offsets beyond 1 KiB: a read that positions itself a byte too far would extend the key file
        let a = Alpha { label: "2 keys of 11 bytes in different buckets x {5,1000}", colliding: vec![11], other: vec![11], vals: vec![5, 1000] };
        let mut cfg = make_cfg("C18", KtId::Bytes, 8, &a, seed);
        cfg.oracles = O_DOUBLE | O_XPROC;
        let starts: Vec<Start> = empty_start(&mut ctx, &cfg).into_iter().collect();
        run_closure(&mut ctx, &format!("{} [bytes]", a.label), &cfg, starts, 100_000, 30.0);
    }
    // the highest occupied bucket is the last of its group of eight but not of its group of 64
    bucket_keys_closure(&mut ctx, "C18", 128, &[7, 23], vec![5], O_DOUBLE | O_XPROC, 0, 2_000, 10.0);
    bucket_keys_closure(&mut ctx, "C18", 64, &[15, 39], vec![5], O_DOUBLE | O_XPROC, 0, 2_000, 10.0);
    crate::engine_b::c18_live(&mut ctx);
    let rule = format!("{RULE_A}; every (state, letter) is executed three times: the primary run, a second run in another directory of the same process with read-only calls spliced before and after the update, and a third spliced run in a different worker process; the resulting files must be byte-identical; over the closure this covers every history of the alphabet; non-trivial = double executions compared");
    ctx.finish_model_checking(&rule, &["double_executions", "cross_process_double_executions"])
}
