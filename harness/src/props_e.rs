//! C07: the configuration lattice (engine B histories under every configuration).
#![allow(dead_code)]

use crate::engine_b::*;
use crate::pool::{JobResult, WorkerIo};
use crate::props_a::Ctx;
use crate::report::{Replay, Violation};
use crate::subject::*;
use crate::util::{Buf, Rd, J};

pub const JOB_C07_RUN: u8 = 50;

fn c07_run(bw: &mut BWorker, payload: &[u8], io: &mut WorkerIo) -> Vec<u8> {
    let mut r = Rd::new(payload);
    let p = Params::dec(&mut r);
    let n = r.u32();
    let seqs: Vec<Vec<u8>> = (0..n).map(|_| r.vec()).collect();
    let saved = bw.cfg.clone();
    bw.cfg.maps[0].params = p;
    let mut out = BOutcome::default();
    for (i, s) in seqs.iter().enumerate() {
        io.progress(i as u64);
        out.sequences += 1;
        bw.cfg.depth = s.len() as u8;
        if let Some((pos, msg)) = bw.run_sequence(s, &mut out, None) {
            let kind = if msg.contains("panicked") {
                "panic"
            } else if msg.contains("returned Err") {
                "err"
            } else {
                "wrong-result"
            };
            out.failure = Some((s.clone(), pos, kind.to_string(), msg));
            break;
        }
    }
    bw.cfg = saved;
    out.enc()
}

pub fn table_params() -> Vec<HtP> {
    let mut v = Vec::new();
    for x in [0u64, 1, 2, 3, 4, 5, 7, 8, 9, 16, 64, 100, 128, 1000, 65536] {
        v.push(HtP::Buckets(x));
    }
    for c in [1u64, 4, 7, 8, 9, 100, 1000, 65536] {
        v.push(HtP::Capacity(c));
    }
    v.push(HtP::Default);
    v
}

pub fn buffer_params() -> Vec<BufP> {
    vec![BufP::Auto, BufP::PerMille(1000), BufP::PerMille(500), BufP::PerMille(1), BufP::Size(0), BufP::Size(131072), BufP::Size(262144), BufP::Size(1048576)]
}

/// the part of a configuration that deviates from the default, as a short stable label
pub fn deviation(p: &Params) -> String {
    let d = Params::defaults();
    let mut v = Vec::new();
    if p.ht != HtP::Buckets(64) {
        v.push(format!("ht={}", p.ht.label()));
    }
    if p.val != d.val {
        v.push(format!("val={}", p.val.label()));
    }
    if p.key != d.key {
        v.push(format!("key={}", p.key.label()));
    }
    if p.htx != d.htx {
        v.push(format!("htx={}", p.htx.label()));
    }
    if v.is_empty() {
        "default".into()
    } else {
        v.join(",")
    }
}

/// finding key of a failure under configuration p
fn c07_key(p: &Params, kind: &str) -> String {
    let mut small: Vec<&str> = Vec::new();
    for (name, b) in [("val", p.val), ("key", p.key), ("htx", p.htx)] {
        if let BufP::PerMille(x) = b {
            if x < 1000 {
                small.push(name);
            }
        }
    }
    if !small.is_empty() && (kind == "hang" || kind == "abort") {
        return format!("permille-below-1000:{}:{kind}", small.join("+"));
    }
    format!("cfg[{}]:{kind}", deviation(p))
}

/// run (configuration, histories) jobs on the current pool; returns (jobs done, configurations seen, failing configurations, complete)
fn c07_exec(ctx: &mut Ctx, cfg: &BCfg, jobs: &[(Params, Vec<Vec<u8>>, &'static str)], limit: f64, tag: &str) -> (usize, std::collections::BTreeSet<Params>, std::collections::BTreeSet<Params>, bool) {
    let payloads: Vec<Vec<u8>> = jobs
        .iter()
        .map(|(p, hs, _)| {
            let mut b = Buf::new();
            b.u8(JOB_C07_RUN);
            p.enc(&mut b);
            b.u32(hs.len() as u32);
            for h in hs {
                b.bytes(h);
            }
            b.0
        })
        .collect();
    let t0 = ctx.run.elapsed();
        let mut configs_seen: std::collections::BTreeSet<Params> = Default::default();
    let mut complete = true;
    let mut jdone = 0usize;
    let chunk = ctx.pool.size() * 4;
    let mut bad_configs: std::collections::BTreeSet<Params> = Default::default();
    let mut lo = 0usize;
    while lo < jobs.len() {
        if ctx.run.elapsed() - t0 > limit {
            complete = false;
            break;
        }
        let hi = (lo + chunk).min(jobs.len());
        // configurations already known to fail are not run again (each failure costs a watchdog period)
        let idxs: Vec<usize> = (lo..hi).filter(|i| !bad_configs.contains(&jobs[*i].0)).collect();
        let batch: Vec<Vec<u8>> = idxs.iter().map(|i| payloads[*i].clone()).collect();
        let results = ctx.pool.map(&batch, |i| i);
        for (bi, res) in results.into_iter().enumerate() {
            let ji = idxs[bi];
            let (p, hs, _what) = &jobs[ji];
            jdone += 1;
            configs_seen.insert(*p);
            let mut report = |ctx: &mut Ctx, key: String, msg: String, seq: &[u8], pos: usize| {
                let mut case = Buf::new();
                p.enc(&mut case);
                case.bytes(seq);
                let mut story = vec![format!("configuration: {}", p.label())];
                let mut c2 = cfg.clone();
                c2.maps[0].params = *p;
                story.extend(seq_story(&c2, seq, pos));
                story.push(format!("observed: {msg}"));
                ctx.run.violation(Violation { prop: "C07".into(), key, message: format!("{tag}under {}: {msg}", p.label()), replay: Replay { engine: "C07".into(), config: cfg.enc(), case: case.0, story } });
            };
            match res {
                JobResult::Done(b) => {
                    let o = BOutcome::dec(&b);
                    ctx.states += o.sequences;
                    ctx.transitions += o.calls;
                    if let Some((seq, pos, kind, msg)) = o.failure {
                        bad_configs.insert(*p);
                        report(ctx, format!("{tag}{}", c07_key(p, &kind)), msg, &seq, pos);
                    }
                }
                JobResult::Crashed { progress, how } => {
                    bad_configs.insert(*p);
                    let kind = if how.contains("hang") { "hang" } else { "abort" };
                    let key = format!("{tag}{}", c07_key(p, kind));
                    let si = progress.unwrap_or(0) as usize;
                    let seq = hs.get(si).cloned().unwrap_or_default();
                    if !ctx.run.violations.iter().any(|v| v.key == key) {
                        // confirm alone
                        let mut b = Buf::new();
                        b.u8(JOB_C07_RUN);
                        p.enc(&mut b);
                        b.u32(1).bytes(&seq);
                        match ctx.pool.run_isolated(&b.0) {
                            JobResult::Crashed { how: how2, .. } => {
                                report(ctx, key, format!("the history does not return normally: {how}; confirmed alone in a fresh process: {how2}"), &seq, seq.len());
                            }
                            JobResult::Done(_) => crate::report::machinery_failure(&format!("C07: a crash under {} did not reproduce in isolation ({how})", p.label())),
                        }
                    } else {
                        ctx.run.add("further_crashes_with_a_reported_key", 1);
                    }
                }
            }
        }
        lo = hi;
        if ctx.run.too_many() {
            complete = false;
            break;
        }
    }
    (jdone, configs_seen, bad_configs, complete)
}

pub fn c07(tier: &str, seed: u64) -> i32 {
    let mut ctx = Ctx::new("C07", tier, seed, "model_checking");
    let thorough = ctx.thorough();
    // 3 keys (one of 60000 bytes), values of 10 / 100000 / 300000 bytes: .val and .key exceed a
    // two-chunk buffer, so eviction with dirty write-back happens inside a history
    // two colliding keys whose records sit exactly on a slot-class edge (11 bytes as chain tail, 10 as
    // head), so that an offset growing by a byte under some configuration really moves a record, and a
    // third key of 60000 bytes in a lower bucket of the same group of eight (the key file passes 16 KiB;
    // emptying the higher bucket must leave the lower one visible to iteration)
    let mut m0 = std_map(KtId::Bytes, 64, 1, 11, seed, "m");
    m0.keys.extend(crate::alphabet::keys_in_bucket(KtId::Bytes, 64, 3, 1, 10, seed, &m0.keys));
    m0.keys.push(crate::alphabet::keys_in_bucket(KtId::Bytes, 64, 1, 1, 60_000, seed, &[]).pop().unwrap());
    let mut letters = Vec::new();
    for k in 0..3u8 {
        for v in 0..3u8 {
            letters.push(Letter { kind: L_PUT, map: 0, handle: H_FIRST, key: k, val: v });
        }
        letters.push(Letter { kind: L_DEL, map: 0, handle: H_FIRST, key: k, val: 0 });
        letters.push(Letter { kind: L_GET, map: 0, handle: H_FIRST, key: k, val: 0 });
    }
    let nl = letters.len() as u8;
    let reopen = vec![Params::defaults(), Params { ht: HtP::Buckets(4096), val: BufP::Size(262144), key: BufP::Auto, htx: BufP::Size(1048576) }, Params { ht: HtP::Capacity(1), val: BufP::PerMille(1000), key: BufP::Size(524288), htx: BufP::Auto }];
    let cfg = BCfg { prop: "C07".into(), maps: vec![m0], val_lens: vec![10, 100_000, 300_000], letters, depth: 3, flags: F_DECODE_END | F_REOPEN_END, seed, reopen, other_params: Params::defaults() };
    ctx.pool.reinit(vec![{
        let mut b = Buf::new();
        b.u8(JOB_B_CONFIG).bytes(&cfg.enc());
        b.0
    }]);
    ctx.pool.watchdog = std::time::Duration::from_secs(8);
    // history sets
    let mut h1: Vec<Vec<u8>> = Vec::new();
    let mut h2: Vec<Vec<u8>> = Vec::new();
    let mut h3: Vec<Vec<u8>> = Vec::new();
    for a in 0..nl {
        h1.push(vec![a]);
        for b in 0..nl {
            h2.push(vec![a, b]);
            for c in 0..nl {
                h3.push(vec![a, b, c]);
            }
        }
    }
    // letters: key k -> 5k+{0,1,2}=put v, 5k+3=del, 5k+4=get
    let put = |k: u8, v: u8| 5 * k + v;
    let del = |k: u8| 5 * k + 3;
    let get = |k: u8| 5 * k + 4;
    let hfix: Vec<Vec<u8>> = vec![
        vec![put(0, 2), put(1, 2), get(0), get(1), put(2, 0), get(2), del(0), get(1)],
        vec![put(0, 0), put(1, 1), put(2, 2), put(0, 2), put(1, 0), get(0), get(1), get(2), del(2), get(0)],
        vec![put(2, 2), put(2, 0), put(2, 1), del(2), put(0, 1), put(2, 1), get(2), get(0)],
        vec![put(0, 1), del(0), put(1, 1), put(0, 2), del(1), put(1, 2), get(0), get(1), del(0), del(1), put(2, 0), get(2)],
        vec![put(1, 2), put(1, 2), put(1, 1), put(1, 2), get(1), put(0, 2), get(1), get(0)],
        vec![put(0, 0), put(1, 0), put(2, 0), get(0), get(1), get(2), del(0), del(1), del(2), get(0)],
    ];
    let d = Params { ht: HtP::Buckets(64), ..Params::defaults() };
    // configurations
    let mut singles: Vec<Params> = vec![d];
    for t in table_params() {
        singles.push(Params { ht: t, ..d });
    }
    for b in buffer_params() {
        singles.push(Params { val: b, ..d });
        singles.push(Params { key: b, ..d });
        singles.push(Params { htx: b, ..d });
    }
    singles.sort();
    singles.dedup();
    let mut pairs: Vec<Params> = Vec::new();
    for t in table_params() {
        for b in buffer_params() {
            pairs.push(Params { ht: t, val: b, ..d });
            pairs.push(Params { ht: t, key: b, ..d });
            pairs.push(Params { ht: t, htx: b, ..d });
        }
    }
    pairs.sort();
    pairs.dedup();
    pairs.retain(|p| !singles.contains(p));
    // configurations with a PerMille(<1000) buffer fall into a known finding of the dependency (see
    // KNOWN_FINDINGS.txt); each failing run costs a watchdog period, so that class is not multiplied:
    // all its single-coordinate members always, its pairs only in the thorough tier
    let in_pm_class = |p: &Params| [p.val, p.key, p.htx].iter().any(|b| matches!(b, BufP::PerMille(x) if *x < 1000));
    let n_pairs_all = pairs.len();
    if !thorough {
        pairs.retain(|p| !in_pm_class(p));
    }
    let pm_pairs_skipped = n_pairs_all - pairs.len();
    let mut product: Vec<Params> = Vec::new();
    if thorough {
        for t in table_params() {
            for a in buffer_params() {
                for b in buffer_params() {
                    for c in buffer_params() {
                        product.push(Params { ht: t, val: a, key: b, htx: c });
                    }
                }
            }
        }
        product.retain(|p| !singles.contains(p) && !pairs.contains(p) && !in_pm_class(p));
    }
    // job list: (configuration, histories)
    let mut jobs: Vec<(Params, Vec<Vec<u8>>, &'static str)> = Vec::new();
    let chunked = |hs: &Vec<Vec<u8>>, n: usize| -> Vec<Vec<Vec<u8>>> { hs.chunks(n).map(|c| c.to_vec()).collect() };
    for p in &singles {
        let big_table = matches!(p.ht, HtP::Default);
        if big_table {
            jobs.push((*p, hfix[..if thorough { 6 } else { 2 }].to_vec(), "fixed histories"));
            continue;
        }
        if thorough {
            for c in chunked(&h3, 600) {
                jobs.push((*p, c, "all depth-3 sequences"));
            }
        } else {
            jobs.push((*p, h2.clone(), "all depth-2 sequences"));
        }
        jobs.push((*p, hfix.clone(), "fixed histories"));
    }
    if !thorough {
        for c in chunked(&h3, 250) {
            jobs.push((d, c, "all depth-3 sequences"));
        }
    }
    for p in &pairs {
        if matches!(p.ht, HtP::Default) {
            if thorough {
                jobs.push((*p, hfix[..2].to_vec(), "fixed histories"));
            }
            continue;
        }
        if thorough && in_pm_class(p) {
            jobs.push((*p, hfix[..2].to_vec(), "fixed histories"));
        } else if thorough {
            jobs.push((*p, h2.clone(), "all depth-2 sequences"));
            jobs.push((*p, hfix.clone(), "fixed histories"));
        } else {
            jobs.push((*p, hfix[..3].to_vec(), "fixed histories"));
            jobs.push((*p, h1.clone(), "all depth-1 sequences"));
        }
    }
    for p in &product {
        if matches!(p.ht, HtP::Default) {
            continue;
        }
        jobs.push((*p, hfix[..4].to_vec(), "fixed histories"));
    }
    let limit = if thorough { 900.0 } else { 45.0 };
    let t0 = ctx.run.elapsed();
    let (jdone, configs_seen, bad_configs, mut complete) = c07_exec(&mut ctx, &cfg, &jobs, limit, "");
    // typed maps under every table parameter: an i64 map with three raw byte keys that denote the same
    // number in different lengths ([7], 7 as 8 little-endian bytes, [7,0]), a u64 map likewise, a string map
    // with a key, the key plus NUL and a non-UTF-8 key: small tables put them into one chain, large tables do not
    let mut typed_done: Vec<String> = Vec::new();
    if !ctx.run.too_many() {
        let odd: Vec<Vec<u8>> = vec![vec![7], 7u64.to_le_bytes().to_vec(), vec![7, 0]];
        let strs: Vec<Vec<u8>> = vec![b"ab".to_vec(), b"ab\0".to_vec(), vec![b'a', 0xFF]];
        for (kt, keys, name) in [(KtId::I64, odd.clone(), "i64 map, raw keys [7] / 7 as 8 bytes / [7,0]"), (KtId::U64, odd.clone(), "u64 map, raw keys [7] / 7 as 8 bytes / [7,0]"), (KtId::Str, strs, "string map, keys ab / ab+NUL / a+0xFF")] {
            let mut mt = std_map(kt, 64, 1, 8, seed, "t");
            mt.keys = keys;
            let mut c2 = cfg.clone();
            c2.maps = vec![mt];
            c2.val_lens = vec![10, 300, 5000];
            ctx.pool.reinit(vec![{
                let mut b = Buf::new();
                b.u8(JOB_B_CONFIG).bytes(&c2.enc());
                b.0
            }]);
            ctx.pool.watchdog = std::time::Duration::from_secs(8);
            let mut tjobs: Vec<(Params, Vec<Vec<u8>>, &'static str)> = Vec::new();
            for t in table_params() {
                if matches!(t, HtP::Default) {
                    continue;
                }
                let p = Params { ht: t, ..d };
                if thorough {
                    for c in chunked(&h3, 600) {
                        tjobs.push((p, c, "all depth-3 sequences"));
                    }
                } else {
                    tjobs.push((p, h2.clone(), "all depth-2 sequences"));
                }
                tjobs.push((p, hfix.clone(), "fixed histories"));
            }
            let (jd, seen, bad, comp) = c07_exec(&mut ctx, &c2, &tjobs, if thorough { 300.0 } else { 15.0 }, &format!("{}:", kt.name()));
            eprintln!("[C07] {name}: jobs={jd} configurations={} failing={} complete={comp}", seen.len(), bad.len());
            typed_done.push(format!("{name}: {} table parameters, {} jobs", seen.len(), jd));
            if !comp {
                complete = false;
            }
        }
        ctx.pool.reinit(vec![{
            let mut b = Buf::new();
            b.u8(JOB_B_CONFIG).bytes(&cfg.enc());
            b.0
        }]);
    }
    // the alternative cargo feature sets of the crate: the workers are rebuilt with each of them
    // (./check builds them for the thorough tier); the format may differ from the documented default,
    // so only the model and the re-open oracle are used there
    let mut alt_done: Vec<String> = Vec::new();
    if thorough || std::env::var("ABYV_ALT_FEATURES").is_ok() {
        for alt in ["fs_u64u64", "fs_nobitmap", "fs_remhalf", "fs_nopin", "fs_debug", "fs_stdhasher"] {
            let exe = crate::report::verif_root().join(format!("harness/target/alt-{alt}/release/abyv"));
            if !exe.exists() {
                ctx.run.notes.push(format!("feature set {alt}: worker build missing, skipped"));
                continue;
            }
            let n = ctx.pool.size();
            ctx.pool = crate::pool::Pool::new(n, vec![("ABYV_WORKER_EXE".to_string(), exe.display().to_string())], vec![]);
            let mut c2 = cfg.clone();
            c2.flags = F_REOPEN_END;
            ctx.pool.reinit(vec![{
                let mut b = Buf::new();
                b.u8(JOB_B_CONFIG).bytes(&c2.enc());
                b.0
            }]);
            ctx.pool.watchdog = std::time::Duration::from_secs(8);
            let mut ajobs: Vec<(Params, Vec<Vec<u8>>, &'static str)> = Vec::new();
            for p in &singles {
                if matches!(p.ht, HtP::Default) || in_pm_class(p) {
                    continue;
                }
                ajobs.push((*p, h2.clone(), "all depth-2 sequences"));
                ajobs.push((*p, hfix.clone(), "fixed histories"));
            }
            let (jd, seen, bad, comp) = c07_exec(&mut ctx, &c2, &ajobs, 240.0, &format!("features[{alt}]:"));
            eprintln!("[C07] feature set {alt}: jobs={jd} configurations={} failing={} complete={comp}", seen.len(), bad.len());
            alt_done.push(format!("{alt}: {} configurations, {} jobs", seen.len(), jd));
            if !comp {
                complete = false;
            }
        }
    }
    eprintln!("[C07] jobs={}/{} configurations={} sequences={} calls={} {:.1}s", jdone, jobs.len(), configs_seen.len(), ctx.states, ctx.transitions, ctx.run.elapsed() - t0);
    ctx.run.add("configurations", configs_seen.len() as i64);
    ctx.run.add("configurations_failing", bad_configs.len() as i64);
    ctx.runs.push(J::obj(vec![
        ("single_coordinate_configurations", J::Int(singles.len() as i64)),
        ("pair_configurations", J::Int(pairs.len() as i64)),
        ("full_product_configurations", J::Int(product.len() as i64)),
        ("configurations_run", J::Int(configs_seen.len() as i64)),
        ("history_sets", J::s(&format!("depth-1: {}, depth-2: {}, depth-3: {}, fixed longer histories: {}", h1.len(), h2.len(), h3.len(), hfix.len()))),
        ("letters", J::Arr(cfg.letters.iter().map(|l| J::s(&cfg.label(l))).collect())),
        ("reopen_parameter_sets", J::Arr(cfg.reopen.iter().map(|p| J::s(&p.label())).collect())),
        ("pairs_in_the_known_finding_class_not_run_in_this_tier", J::Int(pm_pairs_skipped as i64)),
        ("jobs_done", J::Int(jdone as i64)),
        ("jobs_total", J::Int(jobs.len() as i64)),
        ("alternative_feature_sets", J::Arr(alt_done.iter().map(|x| J::s(x)).collect())),
        ("typed_maps_under_every_table_parameter", J::Arr(typed_done.iter().map(|x| J::s(x)).collect())),
    ]));
    for p in singles.iter().step_by(9).chain(pairs.iter().step_by(97)) {
        ctx.run.sample(J::s(&p.label()));
    }
    if !complete {
        ctx.all_closed = false;
    }
    let rule = "configuration lattice x bounded-exhaustive histories on the real code (engine B): table parameter in {BucketsSize 0,1,2,3,4,5,7,8,9,16,64,100,128,1000,65536; Capacity 1,4,7,8,9,100,1000,65536; Default} x buffer parameter per file (val,key,htx) in {Auto, PerMille 1000/500/1, Size 0/131072/262144/1048576}; quick: every single-coordinate deviation x all depth-2 sequences + fixed longer histories, every (table x one buffer) pair x depth-1 + fixed, default x all depth-3; thorough: singles x depth-3, pairs x depth-2, the full product 24x8^3 x fixed histories. letters: put/delete/get on 3 keys (one of 60000 bytes) with values of 10/100000/300000 bytes, so eviction with write-back happens inside a history. oracle: every call equals the one BTreeMap model under every configuration, the files decode to the model, and re-opening under three other configurations shows the same contents. non-trivial = configurations run (each distinct)";
    ctx.finish_model_checking(rule, &["configurations"])
}

pub fn replay_c07(config: &[u8], case: &[u8]) -> i32 {
    let cfg = BCfg::dec(config);
    let mut r = Rd::new(case);
    let p = Params::dec(&mut r);
    let seq = r.vec();
    println!("replay C07 under {}", p.label());
    let mut bw = BWorker::new(cfg);
    let mut b = Buf::new();
    p.enc(&mut b);
    b.u32(1).bytes(&seq);
    let mut io = WorkerIo::sink();
    let o = BOutcome::dec(&c07_run(&mut bw, &b.0, &mut io));
    match o.failure {
        Some((_, pos, key, msg)) => {
            println!("REPLAY VIOLATION at call {} [{key}]: {msg}", pos + 1);
            1
        }
        None => {
            println!("REPLAY: no violation reproduced");
            0
        }
    }
}

pub fn worker_job(kind: u8, payload: &[u8], io: &mut WorkerIo) -> Vec<u8> {
    match kind {
        JOB_C07_RUN => with_bworker(|bw| c07_run(bw, payload, io)),
        _ => crate::props_f::worker_job(kind, payload, io),
    }
}
