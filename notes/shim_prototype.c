#define _GNU_SOURCE
#include <dlfcn.h>
#include <errno.h>
#include <stdio.h>
#include <string.h>
#include <unistd.h>
#include <sys/types.h>
static long g_fail_at = 0;   /* fail the k-th matching write from now (1-based); 0 = disarmed */
static int  g_mode = 0;      /* 0: ENOSPC, 1: short write (half) then ENOSPC on the following ones */
static long g_count = 0, g_writes = 0, g_syncs = 0, g_sticky = 0;
static int match(int fd) { char path[512], link[64]; snprintf(link, sizeof link, "/proc/self/fd/%d", fd); ssize_t r = readlink(link, path, sizeof path - 1); if (r < 0) return 0; path[r] = 0; return strstr(path, "/dev/shm/probe2/") != NULL; }
long abyv_ctl(int cmd, long arg) {
    switch (cmd) { case 0: g_fail_at = 0; g_sticky = 0; return 0; case 1: g_fail_at = arg; g_count = 0; g_sticky = 0; return 0; case 2: g_mode = (int)arg; return 0; case 3: { long w = g_writes; g_writes = 0; return w; } case 4: { long s = g_syncs; g_syncs = 0; return s; } }
    return -1;
}
ssize_t write(int fd, const void *b, size_t n) {
    static ssize_t (*real)(int, const void*, size_t); if (!real) real = dlsym(RTLD_NEXT, "write");
    if (fd > 2 && match(fd)) {
        g_writes++;
        if (g_sticky) { errno = ENOSPC; return -1; }
        if (g_fail_at) { g_count++; if (g_count == g_fail_at) { g_sticky = 1; if (g_mode == 1 && n > 1) return real(fd, b, n / 2); errno = ENOSPC; return -1; } }
    }
    return real(fd, b, n);
}
int fsync(int fd) { static int (*real)(int); if (!real) real = dlsym(RTLD_NEXT, "fsync"); if (match(fd)) g_syncs++; return real(fd); }
int fdatasync(int fd) { static int (*real)(int); if (!real) real = dlsym(RTLD_NEXT, "fdatasync"); if (match(fd)) g_syncs++; return real(fd); }
