import sys, struct
M=(1<<64)-1
def vu(b,o):
    f=b[o]; L=0
    while L<8 and (f>>(7-L))&1: L+=1
    n=L+1
    if n==1: return f,1
    if n==9: return int.from_bytes(b[o+1:o+9],'little'),9
    if n==8: return int.from_bytes(b[o+1:o+8],'little'),8
    low=f & ((1<<(8-n))-1)
    rest=int.from_bytes(b[o+1:o+n],'little')
    return low | (rest<<(8-n)), n
def xs(x):
    x^=x>>12; x^=(x<<25)&M; x^=x>>27; return x
def h(key):
    st=0
    def w(bs):
        nonlocal st
        for i in range(0,len(bs),8):
            c=bs[i:i+8]; a=int.from_bytes(c,'big'); st=xs((st+a)&M)
    w(struct.pack('<Q',len(key))); w(key); return st
d=sys.argv[1]
htx=open(d+'/m.htx','rb').read(); key=open(d+'/m.key','rb').read(); val=open(d+'/m.val','rb').read()
assert htx[:8]==b'abysdbH\0' and key[:8]==b'abysdbK\0' and val[:8]==b'abysdbV\0', "sig1"
print("type sig", htx[8:16], key[8:16], val[8:16])
n=struct.unpack_from('<Q',htx,16)[0]; cnt=struct.unpack_from('<Q',htx,24)[0]
assert len(htx)==128+8*n+(n+7)//8, (len(htx), n)
CLS=[16,24,32,48,64,80,96,112,128,256,384,512,640,768,896,1024]
def tiling(f):
    o=192; slots={}
    while o<len(f):
        sz,l1=vu(f,o); sz*=8; ln,l2=vu(f,o+l1)
        assert sz>0 and (sz in CLS or (sz>=1024 and sz%128==0)), ("bad slot size",o,sz)
        slots[o]=(sz,ln,l1+l2); o+=sz
    assert o==len(f), ("tiling end",o,len(f)); return slots
ks=tiling(key); vs=tiling(val)
def freelists(f,base,slots):
    fr={}
    for i,c in enumerate(CLS):
        o=struct.unpack_from('<Q',f,base+8*i)[0]; seen=set()
        while o:
            assert o in slots and o not in fr and o not in seen, ("free list bad",c,o); seen.add(o)
            sz,ln,hl=slots[o]; assert ln==0
            assert (sz==c) if i<15 else sz>=1024, ("free class",c,sz)
            fr[o]=c; o=struct.unpack_from('<Q',f,o+hl)[0]
    return fr
kf=freelists(key,48,ks); vf=freelists(val,32,vs)
got={}; usedk=set(); usedv=set(); nonempty=0
for b in range(n):
    o=struct.unpack_from('<Q',htx,128+8*b)[0]
    bit=(htx[128+8*n+b//8]>>(b%8))&1
    if o: nonempty+=1; assert bit==1,("bitmap",b)
    while o:
        assert o in ks and o not in usedk and o not in kf, ("chain",b,o); usedk.add(o)
        sz,kl,hl=ks[o]; p=o+hl; k=key[p:p+kl]; p+=kl
        vo,l=vu(key,p); vo*=8; p+=l; nx,l=vu(key,p); nx*=8; p+=l
        assert p<=o+sz, "key rec overflow"; assert all(x==0 for x in key[p:o+sz]), "key pad"
        assert h(k)%n==b, ("placement",k,b,h(k)%n); assert k not in got
        assert vo in vs and vo not in usedv and vo not in vf, ("value ref",vo); usedv.add(vo)
        vsz,vl,vhl=vs[vo]; v=val[vo+vhl:vo+vhl+vl]; assert vo+vhl+vl<=vo+vsz; assert all(x==0 for x in val[vo+vhl+vl:vo+vsz]), "val pad"
        got[k]=v; o=nx
assert cnt==len(got), ("count",cnt,len(got))
assert set(ks)==usedk|set(kf), ("key partition", set(ks)-usedk-set(kf))
assert set(vs)==usedv|set(vf), ("val partition", sorted(set(vs)-usedv-set(vf)))
exp={}
for line in open(d+'/expected.txt'):
    parts=line.rstrip('\n').split(' '); exp[bytes.fromhex(parts[0])]=bytes.fromhex(parts[1]) if len(parts)>1 else b''
assert got==exp, "contents differ"
print(f"OK n={n} count={cnt} nonempty_buckets={nonempty} key slots={len(ks)} (free {len(kf)}) val slots={len(vs)} (free {len(vf)})")
