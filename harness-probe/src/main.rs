//! abyv-probe: for EVERY value length 0..=2^24 and EVERY key length 0..=2^16 (plus bands of 273 lengths
//! around 2^17, 2^20, 2^21 and 2^24) x every pair of
//! (value offset, next offset) from the offset-width boundary set, ask the crate's own sizing code
//! (through the layout-probe hook) which slot it chooses, and compare with the independently
//! computed exact encoded record length. Output: key=value lines on stdout.
#[path = "../../harness/src/decoder.rs"]
#[allow(dead_code)]
mod decoder;

use decoder::{key_record_len, legal_slot_size, value_record_len, vu_len};

fn offsets() -> Vec<u64> {
    let mut v: Vec<u64> = vec![0, 192, 200, 1016, 1024, 1032];
    for k in 1..=8u32 {
        let b = 1u64 << (7 * k); // width boundary of the raw value
        for base in [b, b.saturating_mul(8)] {
            if base < (1u64 << 62) {
                for d in [-8i64, 0, 8] {
                    let x = (base as i64 + d) as u64;
                    v.push(x / 8 * 8);
                }
            }
        }
    }
    v.push((1u64 << 62) - 8);
    v.sort();
    v.dedup();
    v
}

fn main() {
    let args: Vec<String> = std::env::args().collect();
    let max_val: usize = args.get(1).and_then(|s| s.parse().ok()).unwrap_or(1 << 24);
    let max_key: usize = args.get(2).and_then(|s| s.parse().ok()).unwrap_or(1 << 16);
    let mut evals: u64 = 0;
    let mut bad: Vec<String> = Vec::new();
    let mut distinct_slots: std::collections::BTreeSet<u32> = Default::default();
    let mut tight: u64 = 0; // record fills its slot to within 7 bytes
    let mut est_minus_exact_max: i64 = i64::MIN;
    abyssiniandb::filedb::verif::value_layout_sweep(max_val, &mut |len, size_field, piece_len, slot| {
        evals += 1;
        distinct_slots.insert(slot);
        let exact = value_record_len(len as u64, slot as u64);
        if !legal_slot_size(slot as u64) || slot % 8 != 0 {
            if bad.len() < 10 {
                bad.push(format!("value:{len}:illegal-slot value of {len} bytes gets the illegal slot size {slot}"));
            }
        } else if exact > slot as u64 {
            if bad.len() < 10 {
                bad.push(format!("value:{len}:overflow value of {len} bytes: encoded record needs {exact} bytes but the chosen slot has {slot} (estimate {size_field}+{piece_len})"));
            }
        }
        if exact + 8 > slot as u64 {
            tight += 1;
        }
        let d = (size_field + piece_len) as i64 - exact as i64;
        if d > est_minus_exact_max {
            est_minus_exact_max = d;
        }
    });
    let val_evals = evals;
    let offs = offsets();
    let mut key_evals: u64 = 0;
    // every key length up to max_key, then bands around the lengths at which the size field and the
    // length field of the record grow by a byte (record of 128 KiB: 3-byte size field; key of 2 MiB:
    // 4-byte length field; record of 16 MiB: 4-byte size field)
    let mut key_lengths: Vec<usize> = (0..=max_key).collect();
    for b in [1usize << 17, 1 << 20, 1 << 21, 1 << 24] {
        if b > max_key {
            key_lengths.extend(b - 200..=b + 72);
        }
    }
    let n_key_lengths = key_lengths.len();
    for kl in key_lengths {
        abyssiniandb::filedb::verif::key_layout_sweep(kl, &offs, &mut |vo, nx, size_field, piece_len, slot| {
            key_evals += 1;
            distinct_slots.insert(slot);
            let exact = key_record_len(kl as u64, vo, nx, slot as u64);
            if !legal_slot_size(slot as u64) || slot % 8 != 0 {
                if bad.len() < 10 {
                    bad.push(format!("key:{kl}:illegal-slot key of {kl} bytes (value offset {vo}, next {nx}) gets the illegal slot size {slot}"));
                }
            } else if exact > slot as u64 {
                if bad.len() < 10 {
                    bad.push(format!("key:{kl}:overflow key of {kl} bytes (value offset {vo}, next {nx}): encoded record needs {exact} bytes but the chosen slot has {slot} (estimate {size_field}+{piece_len})"));
                }
            }
            if exact + 8 > slot as u64 {
                tight += 1;
            }
        });
    }
    let _ = vu_len(0);
    println!("value_lengths={}", val_evals);
    println!("key_lengths={}", n_key_lengths);
    println!("offset_pairs={}", offs.len() * offs.len());
    println!("key_evaluations={}", key_evals);
    println!("distinct_slot_sizes={}", distinct_slots.len());
    println!("tight_fits={}", tight);
    println!("max_estimate_minus_exact={}", est_minus_exact_max);
    for b in &bad {
        println!("violation={b}");
    }
}
