#!/usr/bin/env python3
"""Collects confirmed seeded changes into /verif/seeded/<property>-<variant>/ and writes seeded/RESULTS.md.
Input: /tmp/mut/out/<Cnn>/<a|b>/{patch.diff,demo.rs,notes.md} (written by independent sub-agents) and
/tmp/mut/results/<Cnn>-<v>.log (tools/seed_verify.sh + tools/seed_run.sh output)."""
import os, re, json, glob, shutil, sys
OUT = "/verif/seeded"
os.makedirs(OUT, exist_ok=True)
rows = []
logs = [(l, "/tmp/mut", "") for l in sorted(glob.glob("/tmp/mut/results/*.log"))] + [(l, "/tmp/mut2", "r2") for l in sorted(glob.glob("/tmp/mut2/results/*.log"))] + [(l, "/tmp/mut3", "r3") for l in sorted(glob.glob("/tmp/mut3/results/*.log"))] + [(l, "/tmp/mut4", "r4") for l in sorted(glob.glob("/tmp/mut4/results/*.log"))] + [(l, "/tmp/mut5", "r5") for l in sorted(glob.glob("/tmp/mut5/results/*.log"))] + [(l, "/tmp/mut6", "r6") for l in sorted(glob.glob("/tmp/mut6/results/*.log"))] + [(l, "/tmp/mut7", "r7") for l in sorted(glob.glob("/tmp/mut7/results/*.log"))] + [(l, "/tmp/mut8", "r8") for l in sorted(glob.glob("/tmp/mut8/results/*.log"))]
for log, root, tag in logs:
    base = os.path.basename(log)[:-4]          # C01-a
    prop, v = base.split("-")
    name = f"{prop}-{tag}{v}"                  # C01-a (round 1), C01-r2a (round 2)
    src = f"{root}/out/{prop}/{v}"
    txt = open(log).read()
    m = re.search(r"RESULT suite_with_patch\(passed/failed\)=(\d+)/(\d+) \| demo_with_patch: (.*?) \| demo_without_patch: (.*)", txt)
    if not m:
        rows.append((name, "not confirmed (no RESULT line)", "", "")); continue
    suite_ok = m.group(1) == "55" and m.group(2) == "0"
    demo_fails = "FAILED" in m.group(3)
    demo_passes = m.group(4).startswith("test result: ok")
    confirmed = suite_ok and demo_fails and demo_passes
    # last occurrence per check wins (after a re-run)
    det = {}
    for mm in re.finditer(r"^== (C\d\d) rc=(\d+)", txt, re.M):
        det[mm.group(1)] = int(mm.group(2))
    caught = sorted(k for k, rc in det.items() if rc == 1)
    machinery = sorted(k for k, rc in det.items() if rc == 2)
    first_msg = {}
    for sec in re.split(r"^(?=== C\d\d rc=)", txt, flags=re.M):
        mm = re.match(r"== (C\d\d) rc=1", sec)
        if mm:
            w = re.search(r"^  what: (.*)", sec, re.M)
            if w:
                first_msg[mm.group(1)] = w.group(1)[:200]
    notes = open(f"{src}/notes.md").read() if os.path.exists(f"{src}/notes.md") else ""
    summary = ""
    for line in notes.splitlines():
        l = line.strip("# ").strip()
        if len(l) > 30:
            summary = l[:220]; break
    if confirmed:
        d = f"{OUT}/{name}"
        os.makedirs(d, exist_ok=True)
        for f in ("patch.diff", "demo.rs", "notes.md"):
            if os.path.exists(f"{src}/{f}"):
                shutil.copy(f"{src}/{f}", f"{d}/{f}")
        meta = {
            "breaks_property": prop,
            "variant": tag + v,
            "origin": "independent sub-agent given only the property text and a scratch worktree of /repo" + (" (second round: also told which functions the first round had already used, nothing else)" if tag == "r2" else " (third round: also given an area of the code to place the change in and a list of functions already used)" if tag == "r3" else " (fourth round: also given an area of the code and the list of everything the first three rounds had used)" if tag == "r4" else " (fifth round: asked for long or very specific histories, rarely used calls and parameters, one key type or one direction of a conversion, unusual boundaries; given the list of everything the first four rounds had used)" if tag == "r5" else " (sixth round: asked for mistakes that need several maps or particular handle kinds, Drop order, rarely used calls, buffer parameters, arithmetic on counts, stale cached fields, early returns; given the list of everything the first five rounds had used)" if tag == "r6" else " (seventh round: asked for truncating casts, seeks from the wrong base, swapped arguments, the wrong one of the three files, swallowed errors, loop bounds over chunks or buckets, copy-and-paste differences between the key types, wrong header constants; given the list of everything the first six rounds had used)" if tag == "r7" else " (eighth round: one change per property; asked for mistakes that depend on an interaction, a narrow range of sizes/offsets/counts/table sizes, or a buffer chunk written back in the middle of an operation)" if tag == "r8" else ""),
            "needs_to_manifest": summary,
            "confirmed": {"suite_with_patch": f"{m.group(1)} passed / {m.group(2)} failed", "demo_with_patch": m.group(3).strip(), "demo_without_patch": m.group(4).strip(),
                          "how": "tools/seed_verify.sh in a scratch worktree of /repo (removed afterwards)"},
            "checks_run": "tools/seed_run.sh (apply to /repo, ./check <id> quick, undo)",
            "caught_by": caught,
            "own_check_catches": prop in caught,
            "first_message": first_msg,
        }
        json.dump(meta, open(f"{d}/meta.json", "w"), indent=1)
    rows.append((name, "confirmed" if confirmed else f"NOT confirmed (suite {m.group(1)}/{m.group(2)}, demo with: {'fails' if demo_fails else 'passes'}, without: {'passes' if demo_passes else 'fails'})", ", ".join(caught) or "-", first_msg.get(prop, next(iter(first_msg.values()), ""))))
with open(f"{OUT}/RESULTS.md", "w") as f:
    f.write("# Seeded changes and the checks that catch them\n\nGenerated by tools/seed_collect.py from the logs of tools/seed_verify.sh and tools/seed_run.sh (quick tier).\n`caught by` lists every check that printed a VIOLATION line with the change applied; runs against the unchanged tree print none.\n\n| change | status | caught by | message of the owning (or first) check |\n|---|---|---|---|\n")
    for r in rows:
        f.write("| " + " | ".join(x.replace("|", "/") for x in r) + " |\n")
    f.write("""
## Checks that were strengthened because a seeded change was missed

The first version of every check was written before any seeded change existed. The changes below were
missed by the owning check at first (measured, or evident from what the change needs) and led to the
extension named; after the extension every one of these 36 changes is caught by its owning check.

| change | what it needs | extension of the check |
|---|---|---|
| C01-a, C04-b, C06-b | a key record relocated across the 16 KiB estimate boundary / cascading re-link | seeded images at 16 KiB (built by the real code) added to C01, C04 (with the iterator oracle) and C06 |
| C03-b | a database-level sync with an open vu64 map | C03 opens one map of every key type in the same database |
| C05-b, C15-b | an existing map re-opened with a different table parameter, then an update / a lookup | transitions (C02, C05) and read-only sessions (C15) run under alternating parameter sets |
| C06-a | three free large slots with the fitting one at list position three | exhaustive first-fit sweep over all shapes of the large free list with 1..4 members x 5 request sizes |
| C07-b | a chain predecessor that must move while its link is rewritten | C07's colliding keys have record lengths exactly on slot-class edges (11 and 10 bytes) |
| C10-b | two byte keys, one a prefix of the other, in the same chain | the byte/string identity test also runs on a 1-bucket table |
| C11-a, C11-b | map names that differ only after a dot; repeated `*_with_params` lookup on a u64 map | C11 uses the names users.v1 / users.v2 / f.g and one map of every key type |
| C13-a | a map that was created and never updated (files of exactly header size) | C13 runs both families also on never-updated maps |
| C14-a | a put_from_iter batch of at least 33 pairs with repeated keys | batches of 33, 64 and 200 pairs |
| C16-b | a database-level sync over two maps where the earlier one is refused and the last one succeeds | a second small map and a file-size-limit refusal mode (plus the real RLIMIT_FSIZE cross-check) |
| C17-b, C18-b, C15-a | tables of 1, 2 or 4 buckets | closures on tables of 1, 2, 4 buckets in C15, C17, C18 |

Second round (36 more changes, `-r2a` / `-r2b`; the sub-agents were additionally told which functions round one
had used, so that they would choose other places). Extensions it led to:

| change | what it needs | extension of the check |
|---|---|---|
| C02-r2b (and C09-b, C12-b before) | a freed slot of one particular size class (e.g. the 32-byte value class) | class ladder: one small closure per pair of adjacent slot classes, for values and for keys, in C01 (every 4th pair quick, all thorough), C02, C05, C06, C17 |
| C01-r2a | a value of 128 KiB or more (three-byte size field) | 140000-byte values in the quick tier of C01's live-handle sequences |
| C03-r2a | read_fill_buffer() between the updates and the flush | read_fill_buffer and get letters in C03 |
| C03-r2b | a flush refused once by the operating system, then retried | a refused-flush letter in C03 (the shim refuses the first write); C16 caught it from the start |
| C04-r2a, C04-r2b | a key of about 900 bytes or more; string keys that are not valid UTF-8 | closures with 1000/1500-byte keys and with non-UTF-8 string keys under the iterator oracle |
| C05-r2b | keys of 128..1016 bytes with records on a slot edge | closures with colliding keys of 250/251 (thorough: 122/123/378) bytes |
| C06-r2a, C08-r2a | a chain link beyond 128 KiB in the key file while value offsets are between 1 KiB and 16 KiB | a 128 KiB key-file seed with a 1200-byte filler value in C06 and C08 |
| C07-r2b | two occupied buckets in one group of eight, the higher one emptied | C07's third key lives in a lower bucket of the same group |
| C08-r2b | first-fit reuse on the large list while chains are re-linked | a run over {20,1000,1500,3000} on edge-length colliding keys in C08 |
| C11-r2b | two map names that differ only in letter case | maps `Cc` and `cc` in C11 |
| C14-r2a | values that move across 16 KiB inside a batch, keys on slot edges | large-value batches on a one-bucket table in C14 |
| C14-r2b | two string keys, one a prefix of the other, in one chain | one-bucket tables and the keys `man`/`mango`, `m`/`m\\0` in C14 |
| C15-r2b | the string flavour of the bulk lookup | get_string and bulk_get_string among C15's read-only calls |
| C17-r2b | an abandoned key slot after a relocation (orphan) | 16 KiB seeds in C17; figures are compared whenever chains and free lists can be walked |
| C18-r2a | a single read-only call at one particular position of the history | every non-empty set of positions x 4 kinds of read-only call is enumerated per history |

Third round (36 more changes, `-r3a` / `-r3b`; each sub-agent was additionally given an area of the code to put its
changes in). The sub-agents' summaries were read before their changes were run, and the following extensions were made
from those summaries; with them, all 36 were caught by the owning check at the first run:

| change | what it needs | extension of the check |
|---|---|---|
| C01-r3a | a value of 2 MiB or more (four-byte length field) | 2 100 000-byte values in C01's live-handle sequences; lengths around 16 KiB and 2 MiB in C09's end-to-end sweep |
| C03-r3a | two flushes with the same item count and a bucket change in between | a second C03 pass: 7 letters on one map, every sequence of depth 6 (7 thorough) |
| C04-r3a | another read-only call on the same map between two iterator steps | three more iterator flavours: len()/is_empty() between the steps, keys() and values() in lockstep, get()/includes_key() between the steps |
| C05-r3b | 65 536 entries (the stored count written two bytes wide) | scripted maps of 255, 256, 257, 65 535, 65 536, 65 537 entries decoded in C05 (C04's dense 65 536-bucket pattern also reports it) |
| C08-r3a | a value moved from below 16 KiB to beyond 128 KiB | a value-file seed at 128 KiB in C08's quick tier |
| C11-r3b | two map names that differ only by a trailing blank | a second C11 configuration over five look-alike name pairs (trailing/leading blank, letter case, text after a dot, trailing dot), one pair per key type |
| C12-r3a | a release-written slot of one particular size class (640 bytes) that is then updated | a fourth golden history written by the pinned commit holding a live and a freed slot of every class, and a sweep that updates every entry of every golden image once (one byte longer, much longer, one byte shorter, empty, delete) |
| C15-r3a | the empty key as the newest key of a chain that another lookup walks | the empty-key alphabet now has its second key in the empty key's own bucket |
| C15-r3b | read_fill_buffer() on a table of more than 131 072 buckets | a C15 run on a 262 144-bucket table |
| C16-r3a, C16-r3b | a refusal that hits only the key file (or only key/value file) while the table file still fits | three file geometries in C16, so that each of the three files is in turn the largest |
| C18-r3b | a bulk_put whose application order depends on the process | a bulk_put letter in C18's whole-history double execution |

Fourth round (36 more changes, `-r4a` / `-r4b`). Extensions made from the sub-agents' summaries before their changes
were run: put letters through `*_with_params` handles and a second dotted map name in C03; traversals as letters of
live-handle sequences in C04 (a per-instance cache of the iterators shows only without re-open); typed maps (i64/u64 with raw
keys of other lengths, string keys with NUL and non-UTF-8 bytes) under every table parameter in C07; families of conversions
from bytes, raw keys on integer maps and an exhaustive 2^30-range sweep (thorough) in C10; one more look-alike name pair in C11;
batches whose keys are made by the owned conversion in C14; all statistics and string lookups among the spliced read-only
calls of C15/C18, a key file whose last record straddles a buffer-chunk boundary in C15; read_fill_buffer between a failed
flush and the retry in C16; long-key closures in C17. Changes that were still missed by the owning check at the first run,
and what was added:

| change | what it needs | extension of the check |
|---|---|---|
| C01-r4a | key file beyond 192 KiB while value offsets are between 1 KiB and 16 KiB, an exactly fitting key record in a freed slot with live neighbours | a 200 KiB key-file seed whose freed slots lie behind a 1 200-byte value, three keys, in C01 (and C02); `get` of every untouched entry of a start image is part of the API oracle |
| C01-r4b | a table size that is not a power of two, an entry stored by the session that created the table, then a re-open | a start image `BucketsSize(10)` + first entry stored by the creating session |
| C04-r4a, C08-r4b | two key slot classes sharing a free-list head: a freed slot of class i with a live record behind it, then a key of class i+1 | the key half of the class ladder now uses lengths that really fall into the classes (the crate sizes key records from raw offsets) and three keys per pair; all 15 pairs run in C01, C02, C04, C05, C06, C08, C17 |
| C08-r4a | a value exactly one byte longer than the largest that fits a slot class of 256 bytes or more | the value half of the class ladder also runs in C08 |
| C09-r4a | an exactly full key record whose link grows by a byte (key file across 16 KiB) | part (c) of C09: explicit-state closures from two seeded images just below 16 KiB |
| C13-r4b | the files of a never-updated map as they are after flush() (not after close) | C13 also uses images copied after flush() while the handles are alive; tables of 1, 4, 8, 1 024 buckets |

Fifth round (36 more changes, `-r5a` / `-r5b`; the sub-agents were asked for long or very specific histories, rarely used
calls and parameters, behaviour of one key type only, unusual boundaries). Made from the summaries before the run: a 16 MiB
value-file seed and non-UTF-8 string keys in C08 and C01; integer keys at the ends of the domain (9-byte vu64 keys) under
the iterator oracle in C04; sync points (database-level sync over one map of every key type, every Ok call decoded) in C05;
table sizes 1/4/8/1 024 in C13; zero-deviation durability (an unfaulted flush must make everything durable) and a successful
flush inside the history in C16; a start image with more than 16 different slot sizes per file in C17; values beyond 128 KiB
under the read-only oracle in C15; six kinds of spliced read-only calls (statistics, string lookups) in C18; keys of 128 KiB
and 2 MiB end to end and in the arithmetic sweep of C09; deeper two-map histories with values of two neighbouring slot
classes in C11. Missed by the owning check at the first run, and what was added:

| change | what it needs | extension of the check |
|---|---|---|
| C01-r5a, C02-r5b, C06-r5a | a chain of three colliding keys across 16 KiB: a record whose predecessor moves while its own link is rewritten | three-key seeds (capped) in C01, C02 and C06 (C08 had them) |
| C02-r5a | as C01-r4a | the 200 KiB seed also in C02 |
| C03-r5a | a table of 1..4 buckets whose stored bucket count differs from the one in use | one of C03's maps has two buckets |
| C09-r5a, C14-r5a | a large free slot taken from the middle of the first-fit list | for every value length >= 1 000 of C09's sweep a free-and-reuse round on the large list; the same as batches in C14 |
| C10-r5a | the empty key as the newest or a middle entry of its chain | C10 stores its byte-key set in ascending, descending and rotated order |
| C12-r5b | a freed key slot of the shared large class written by the release | a fifth golden history (bytes, string) written by the pinned commit: a live key and a freed slot of every key slot class |
| C14-r5b | key slot classes 256/384 confused | batches over keys of every pair of adjacent key slot classes |
| C18-r5a | an exactly full key record that is the tail of its chain and the last record of the key file, value offsets beyond 1 KiB, a read before the next insert | a closure over two 11-byte keys in different buckets x {5, 1 000} |

Sixth round (36 more changes, `-r6a` / `-r6b`; the sub-agents were asked for mistakes that need several maps in one database or a
particular kind of handle, an unusual Drop order, the rarely used calls, the buffer parameters, arithmetic on counts, stale cached
fields, early returns). Made from the summaries before the run: sequences over two maps of the same key type (`m` and `a`) in
C01; the value ladder up to the 1 152-byte slot; dotted map names at C05's sync points; sibling-file cases (a map's file replaced by a copy
of another of its own files) in C13; a bulk_get with repeated keys and byte strings with coinciding lossy decodings in C10;
a `put_from_iter` fed by the iterator of a clone in C11; a 20 000-byte update in C12's sweep; the statistics of the live handle
against a copy of the directory at every sync point in C17; an update through a second lookup handle in C18. 32 of the 36 were
caught by the owning check at the first run. Missed, and what was added:

| change | what it needs | extension of the check |
|---|---|---|
| C05-r6a | a value exactly two bytes longer than the largest that fits the 1 024-byte slot (two cooperating sites) | C05 and C06 run the store / overwrite / read-back / decode cycle of C09 for every value and key length within a few bytes of every slot class edge |
| C09-r6b | a chain of three exactly fitting keys; a record that moves into a freed slot *below* its old place | three-key seeds (capped) and a value-file seed with freed slots in part (c) of C09 |
| C12-r6b | a length or offset field of three bytes that is *read* (values of 16 KiB and more) | C12's per-entry sweep reads the updated entry back through the API, before and after a re-open |

Seventh round (36 more changes, `-r7a` / `-r7b`; asked for truncating casts, seeks from the wrong base, swapped arguments, the wrong
one of the three files, swallowed errors, loop bounds over chunks or buckets, copy-and-paste differences between the key types,
wrong header constants). Made from the summaries before the run: a value of every slot class at C03's crash points; values of
65 536 and 131 072 bytes in C17; prefix-related byte keys in C01 and (coexisting) in C09's key sweep; a key of 70 000 bytes in
C15; the value ladder and a 200 KiB seed in C04; updates through lookup handles in C02's sequences; a 5 000-byte value in C11;
C09's key sweep once more with 4 KiB buffer chunks; files replaced by a few bytes of garbage in C13; a 140 000-byte value batch in
C14; the filler entries of all seeded images moved to a bucket below the alphabet's; typed maps of C10 on a one-bucket table;
golden images under dotted map names and a 200 KiB seed in C12. 32 of the 36 were caught by the owning check at the first run.
The other four:

| change | what it needs | outcome |
|---|---|---|
| C09-r7a | a two- or three-byte offset field at the end of a key record that straddles a buffer-chunk boundary (4 KiB with `Auto` buffers) | missed by *every* check at first; the 4 KiB-chunk key sweep of C09 now includes the key lengths that put the trailing fields of the swept record across the 4 KiB and 8 KiB marks, and catches it |
| C08-r7b | a value record of 128 KiB or more that is read | caught by the 16 MiB seed, whose 5 s budget had been used up by building the image on a loaded machine; budget raised to 15 s |
| C11-r7a | an exactly fitting key whose value moves beyond 16 KiB | not caught by C11 (short sequences over several maps, no seeded images); reported by C01, C02, C04-C09, C14, C17 |
| C16-r7b | a file-size limit in force during a `put` of 36 603..36 667 bytes (the error of the slot's trailing zero fill is dropped) | not caught by any check: C16 quantifies over refusals during flush and sync calls, and no enumeration here reaches that value length under a fault |

Eighth round (one change per property, `-r8a`; asked for mistakes that depend on an interaction, on a narrow range of sizes,
offsets, counts or table sizes, or on a buffer chunk that is written back in the middle of an operation). Made from the summaries
before the run: the edge sweep in C01; a key of 140 000 bytes in C04; a re-open under another table parameter in C10's typed maps; an
overwrite that fits the old slot among C16's update letters; tables whose highest occupied bucket is the last of its group of
eight in C15 and C18; iterators kept open across other read-only calls among C15's read-only calls; and, for a change that
truncates offsets beyond 32 GiB, histories on files extended with a hole to 256 MiB, 2 GiB and 32 GiB in C08. 15 of the 18 were
caught by the owning check at the first run. The other three:

| change | what it needs | outcome |
|---|---|---|
| C09-r8a | key slot classes 640/768 confused: a freed slot of the smaller class with a live record behind it | C09's sweep frees and re-fills a slot of the same class; the key ladder now also runs in part (c) of C09 |
| C18-r8a | a complete traversal spliced into a history on a table whose highest occupied bucket is 7 mod 8 | revealed a weakness of the harness: the "complete traversal" spliced into engine A's repeated executions stopped at its first step (it was driven through the iterator oracle with an impossible expected count); it is now a plain complete traversal, and C18 catches the change |
| C15-r8a | an iterator kept open while a statistics call moves the position of the table file, resumed in the middle of a group of eight buckets | at first only the traversal went wrong on the tables explored (reported by C04 and C12, no file changed); C15 now has a 16-bucket table with keys in buckets 6 and 15 (the bitmap bytes read as a bucket head point far beyond the key file) and a read-only call that runs statistics calls between the steps of an open iterator, and catches it |

C06-r6a (a second lookup of a vu64 map opens the files a second time) is not caught by C06, whose engine uses one handle per
session; it is a handle-aliasing defect and is reported by C11.

Besides C06-r6a, C11-r7a and C16-r7b one more change is not caught by the check of the property it was written for, and that check was left as it is: C11-r5a (a chain re-link defect that needs a key file beyond 16 KiB and a three-key chain; C11's engine
explores short call sequences over several maps and handles, not seeded images) is reported by C04, C05, C07, C08 and
C09 (and by C01 since the three-key seeds were added). All other 266 changes are caught by the owning check.
""")
print(f"{len(rows)} rows")
