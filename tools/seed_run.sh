#!/bin/bash
# usage: seed_run.sh <patch.diff> <Cnn> [<Cnn> ...]   (or ALL)
# Applies the change to /repo, runs the named quick checks, and undoes it straight afterwards.
set -u
P="$(readlink -f "$1")"; shift
[ -z "$(git -C /repo status --porcelain)" ] || { echo "/repo is not clean"; exit 2; }
git -C /repo apply "$P" || { echo "patch does not apply"; exit 2; }
trap 'git -C /repo checkout -- . ; cd /verif/harness && cargo build --offline --release >/dev/null 2>&1' EXIT
props="$*"; [ "$props" = "ALL" ] && props="C01 C02 C03 C04 C05 C06 C07 C08 C09 C10 C11 C12 C13 C14 C15 C16 C17 C18"
cd /verif
for p in $props; do
  s=$(date +%s); out=$(ABYV_OUT=/tmp/seedrun-root ./check $p ${TIER:-quick} 2>&1); rc=$?; e=$(date +%s)
  echo "== $p rc=$rc $((e-s))s"; echo "$out" | grep -E "^VIOLATION|^  what|^MACH|^KNOWN" | head -${LINES_MAX:-6} | cut -c1-260
done
