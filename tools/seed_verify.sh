#!/bin/bash
# usage: seed_verify.sh <dir containing patch.diff and demo.rs>
# Confirms in a scratch worktree of /repo (removed afterwards): the patch applies and compiles, the
# repository's own suite still passes with it, the demonstration fails with it and passes without.
set -u
D="$(cd "$1" && pwd)"; W=/tmp/seedcheck.$$; export CARGO_TARGET_DIR=/tmp/seedcheck-target; export CARGO_NET_OFFLINE=true
git -C /repo worktree add -f "$W" HEAD >/dev/null 2>&1 || { echo "worktree failed"; exit 2; }
cleanup() { git -C /repo worktree remove --force "$W" >/dev/null 2>&1; git -C /repo worktree prune; }
trap cleanup EXIT
cd "$W"
git apply "$D/patch.diff" || { echo "RESULT patch-does-not-apply"; exit 1; }
suite=$(cargo test --workspace --no-fail-fast --offline 2>&1 | grep -E "^test result" | awk '{p+=$4; f+=$6} END {print p"/"f}')
cp "$D/demo.rs" tests/verif_demo.rs
with=$(cargo test --offline --test verif_demo 2>&1 | grep -E "^test result" | head -1)
git checkout -- src Cargo.toml 2>/dev/null
without=$(cargo test --offline --test verif_demo 2>&1 | grep -E "^test result" | head -1)
echo "RESULT suite_with_patch(passed/failed)=$suite | demo_with_patch: $with | demo_without_patch: $without"
