#!/usr/bin/env python3
"""Writes /verif/MANIFEST.json (kept in a script so that the 18 entries stay consistent)."""
import json, subprocess
A = "engine-A image-graph search"
B = "engine-B live-handle sequences"
C = "engine-C I/O boundary (LD_PRELOAD shim)"
D = "engine-D domain sweeps"
checks = {
 "C01": (A+" + "+B, "model_checking", "explicit-state BFS over on-disk images to closure + bounded-exhaustive call sequences, BTreeMap reference model",
   "Every history (of any length) over small alphabets of colliding keys / slot-class-edge sizes / large-list sizes is covered by running the image graph of the real code to closure, for all five key types; all call sequences up to depth 4 (5 thorough) on live handles cover the no-re-open case, including multi-chunk values. Every call result and every get/includes_key/len/is_empty on every state is compared with a BTreeMap.",
   "alphabets are finite (2-4 keys, 2-5 value lengths): 'all sizes x all histories' is not covered, sizes are covered per call by C09"),
 "C02": (A+" + "+B, "model_checking", "explicit-state BFS over on-disk images (every transition is close+re-open), re-open under a parameter list on every state; re-open letters inside bounded-exhaustive sequences",
   "Every transition of the image graph is 'drop all handles, re-open'; on every reachable state the map is re-opened under 3 other parameter sets and compared (get, absent keys, len, full iteration). Sequences with Reopen(P), drop-map, drop-db, live-iterator and clone letters cover interleavings with live handle graphs.",
   "consecutive transitions run in different worker processes; a freshly spawned process per state only on the first closure"),
 "C03": (C, "fault_enumeration", "exhaustive crash-point enumeration: every durability call of every call sequence up to depth 4/5 over 21 letters (and depth 6/7 over 7 letters), directory snapshot + SIGKILL + system-call log",
   "Every flush/sync_data/sync_all (map, clone, database; six maps of all key types open, two of them with names that differ only after a dot, one with two buckets) that returns Ok in every sequence over the letters is a crash point: the directory is copied with all handles alive and must decode and open to the model; for sync_* the shim's system-call log must show an OS sync after each file's last write; the writer is SIGKILLed at the crash point (all sequences of depth 3) and another process opens what is left.",
   "process death only (no power-loss reordering); the shim sees libc write/pwrite/ftruncate/fsync/fdatasync"),
 "C04": (D+" + "+A+" + "+B, "model_checking", "exhaustive enumeration of table occupancy patterns per table size + iterator oracle on every state of image-graph closures + all live-handle sequences with traversal letters",
   "The scan depends only on (table size, occupied buckets, chain lengths): all 2^n patterns for n<=16 in Gray order on a live map, all <=2-bucket and dense-minus-one patterns up to 256 (1024 thorough), singletons / boundary pairs / dense-minus-one up to 65536, every power-of-two size 1..65536 requested three ways; 10 traversal flavours (the 7 API flavours and 3 with other read-only calls between the steps) with exact size_hint and post-exhaustion behaviour; arbitrary histories via closures under 5 table sizes, seeded images, long / non-UTF-8 / extreme integer keys and the key ladder; all sequences of depth 6 (7) over put/delete/traverse on one live handle and its clone.",
   "for n>16 not all patterns; the 16 Mi default table only in the thorough tier at boundary positions"),
 "C05": (A+" + "+C, "model_checking", "explicit-state BFS over on-disk images, invariant = independent decoder on every state; the same decoder on a copy of the directory at every sync point of all call sequences of a depth",
   "The independent decoder (own vu64, own placement hash, written from the layout documentation) is evaluated on every reachable image of the closures (empty-map starts for 5 key types, seeded images around the 16 KiB offset boundary) and must accept it and recover exactly the model; the class ladder visits every slot class of both files; one map of every key type in one database is driven through every sequence of depth 4 (5) over put/delete/flush/db.sync_all/db.sync_data and decoded at every Ok durability call.",
   "the decoder is the trusted oracle; it is bound to the released format by the golden images (C12) and an independently written Python prototype"),
 "C06": (A, "model_checking", "explicit-state BFS over on-disk images to closure; tiling/partition invariant per state, allocation rule per transition",
   "Closure reached = the reachable image set, hence file size, is finite over all histories of the alphabet (small classes, shared large list with first-fit, large key slots). On every state slots tile the files and are live-once xor free-once; on every transition a file grows only if no suitable free slot existed; statistics calls terminate under a watchdog.",
   "bounded alphabets; the bound is per alphabet, not a closed-form bound for arbitrary workloads"),
 "C07": (B, "model_checking", "configuration lattice x bounded-exhaustive histories on the real code against one reference model",
   "Every single-coordinate deviation of (table parameter, val/key/htx buffer parameter) and every table x buffer pair (thorough: the full 24x8^3 product) runs all histories of the stated depth plus fixed eviction-heavy histories; each must agree with the one model, decode, and show the same contents when re-opened under three other configurations.",
   "PerMille(<1000) configurations fall into a known finding of the dependency rabuf and are not multiplied beyond single coordinates in the quick tier; under the alternative cargo feature sets (thorough) only model and re-open oracles apply"),
 "C08": (A, "model_checking", "explicit-state BFS over on-disk images on all-colliding key sets, from empty and from seeded images at offset-width boundaries",
   "Keys all collide in one bucket and have record lengths exactly on slot-class edges for head/middle/tail positions; seeded images built by the real code put the end of .val/.key at 16 KiB, 128 KiB, 16 MiB (2 MiB thorough) minus {0,16,48} with freed slots below; BFS to closure or cap; overwrites between the largest length of a slot class, one byte more and the next class (class ladder). The evidence counts transitions that really moved a key record per chain position and per cause (put/delete, target/other).",
   "3 keys do not always close within the quick cap (depth >= 7 fully covered); the 256 MiB width step is not materialised"),
 "C09": (D+" + "+A, "exploration", "complete enumeration of the length domain through the layout-probe hook + end-to-end sweep + two explicit-state closures at the 16 KiB offset boundary",
   "Every value length 0..2^24 and every key length 0..2^16 (plus bands around 2^17, 2^20, 2^21, 2^24) x 2704 offset pairs is sized by the crate's own code and compared with the independently computed exact record length (1.9e8 evaluations, exhaustive); the end-to-end sweep stores every length 0..1100 (20000 thorough) and around 4 KiB/128 KiB/1 MiB (16 MiB thorough) between two sentinels, overwrites +-1, reads back, decodes; keys around 128 KiB (2 MiB thorough); for lengths >= 1000 a free-and-reuse round on the shared first-fit list; closures from seeded images just below 16 KiB over exactly fitting key records.",
   "the hook (feature abyssiniandb_verif) calls the same sizing functions as the write path; (b) binds it to the bytes really written"),
 "C10": (D, "exploration", "complete enumeration of a structured finite integer domain (525744 values; thorough: 4 ranges of 2^32 integers per type) + typed-map histories + families of conversions",
   "Round trips by value/reference, pairwise-distinct encodings, hash agreement with the documented function, cmp_u8 on a 94x94 boundary grid, typed maps over the boundary integers with iteration back-conversion, byte/string key sets with prefixes, NULs and non-UTF-8 in three insertion orders, raw keys of other lengths on integer maps, every From conversion of every key type from the same bytes.",
   "2^64 cannot be enumerated; the domain is stated in the evidence"),
 "C11": (B, "model_checking", "bounded-exhaustive call sequences over several named maps and five handle kinds; projection differential",
   "All 85^3 sequences over put/delete on 7 maps of all five key types (names differing only after a dot or in letter case) through first handle / clone / repeated lookup / lookup via db.clone() / *_with_params, plus db.sync_all; 37^3 sequences over six pairs of look-alike names; 6^6 (6^8) sequences over two maps with values of two neighbouring slot classes; after every call every live handle of every map is compared with its map's model; files of map j must be a function of j's own update subsequence (digest comparison across all sequences).",
   "depth 3 (6 resp. 8 for the two-map configuration); two keys per map"),
 "C12": (A, "model_checking", "golden images of the pinned release as start states of the image-graph search; decoder bound to released bytes",
   "22 images written by commit 4b82afd (5 key types x 4 histories, and a history with a live key and a freed slot of every key slot class for the byte-string types) must be decoded by the independent decoder to their recorded contents, open under the current build with identical contents, stay byte-identical under read-only sessions, and keep every C01/C05/C06/C17 oracle on all successors of histories over existing and new keys (under four parameter sets); every entry of every image is also updated once from the original image and the result decoded.",
   "images were generated once from a scratch checkout of the pinned commit; releases older than that are not covered"),
 "C13": (D, "exploration", "complete enumeration of type pairs x foreign file and of all single-byte signature mutations, and sibling-file and short-garbage cases, x 4 table sizes x 3 fill states (738420 open attempts)",
   "Every ordered pair of key types (whole directory and single foreign file) and every one-byte change of the 16 signature bytes of each file of each type must be refused before any lookup answers Ok, leaving files byte-identical.",
   "the u64/vu64 signature collision is a recorded known finding"),
 "C14": (D, "exploration", "complete enumeration of batches up to length 4/8 over a 4-key set x 16 presence states x 5 key types",
   "bulk_get(_string) with repetition, bulk_delete(_string)/bulk_put(_string) without, put_from_iter with repetition, put_string/get_string/delete_string: every returned vector position-wise and every final state against the element-wise model, with invalid UTF-8 values; long batches, large-value batches, keys of every pair of adjacent key slot classes, reuse of large slots, keys made by the owned conversions.",
   "batch length <= 4 (8 thorough) in the complete enumeration"),
 "C15": (A, "model_checking", "self-loop check on every state of image-graph closures: read-only session then byte comparison",
   "On every reachable state each of 29 read-only calls alone (all ordered pairs in thorough) in its own open/close bracket must leave the three files byte-identical and the contents unchanged; combined sessions on further closures, table sizes 1..1024 and 262144, values of 140000 bytes, a key file whose last record straddles a buffer-chunk boundary, and all key types.",
   "states are those of the small closures"),
 "C16": (C, "fault_enumeration", "deviation-bounded fault enumeration: every write of every durability call refused (1 deviation; 2 deviations for short histories / thorough)",
   "For all histories of 1..3 (4 thorough) letters over two maps (updates and a successful flush) x 5 durability calls, in three file geometries: the unfaulted call must leave a durable copy; count the W writes of the call, then refuse the k-th write for every k and three refusal modes, and apply the real RLIMIT_FSIZE at every distinct threshold; the call must return Err, reads while refusing must be right or Err, after lifting the view equals the model before any flush, the next flush succeeds and the snapshot decodes and opens to the model.",
   "only write refusals (three injector modes + the kernel's RLIMIT_FSIZE); failing fsync/ftruncate is not explored"),
 "C17": (A, "model_checking", "explicit-state BFS over on-disk images; statistics calls compared with the independently decoded structure on every state",
   "Every statistics figure is recomputed from the decoder's view of the files on every state of closures that include large-list alphabets, long keys, empty keys/values, multi-bucket tables and a start image with more than 16 different slot sizes per file; termination under a watchdog.",
   "keys_count_stats is not compared (the property is silent about it)"),
 "C18": (A+" + "+B, "model_checking", "triple execution of every (state, letter): second directory with read-only splices, third in another process; whole histories twice in different processes",
   "Over the closures every history of the alphabet is covered: each transition is re-executed with read-only calls (lookups, iteration, all statistics calls) spliced in, in another directory and in another worker process, and must give byte-identical files; engine B repeats whole no-re-open histories in two processes and enumerates every set of positions x six kinds of read-only call spliced into every history of depth 3 (4).",
   "same machine, same binary; platform differences are out of reach"),
}
order = sorted(checks)
repo_commits = subprocess.run(["git","-C","/repo","log","--format=%h %s","4b82afd..HEAD"],capture_output=True,text=True).stdout.strip().splitlines()
hook_commits = [c.split()[0] for c in repo_commits if c.split(' ',1)[1].startswith("verif hook")]
m = {
 "version": 1,
 "setup_cmd": "cd /verif && ./check --build",
 "hooks": {
   "guard": "cargo feature abyssiniandb_verif (off by default)",
   "enable": "only /verif/harness-probe depends on /repo with features=[\"abyssiniandb_verif\"] (C09 arithmetic sweep); every other check builds /repo with default features",
   "baseline_off_cmd": "cd /repo && cargo test --workspace --no-fail-fast --offline",
   "source_commits": hook_commits,
   "add_only": True,
 },
 "engines": [
   {"name": A, "path": "harness/src/engine_a.rs", "serves_properties": ["C01","C02","C04","C05","C06","C08","C09","C12","C15","C17","C18"], "kind_free_text": "explicit-state BFS over exact on-disk images of the real code, worker processes, exact dedupe, closure or stated cap"},
   {"name": B, "path": "harness/src/engine_b.rs", "serves_properties": ["C01","C02","C04","C07","C11","C18"], "kind_free_text": "all call sequences up to a depth on live handles, per-call comparison with a BTreeMap model"},
   {"name": C, "path": "harness/src/engine_c.rs + shim/abyv_shim.c", "serves_properties": ["C03","C05","C16","C18"], "kind_free_text": "crash points and refused writes at the system-call boundary"},
   {"name": D, "path": "harness/src/props_d.rs, props_f.rs, harness-probe/", "serves_properties": ["C04","C09","C10","C13","C14"], "kind_free_text": "complete enumeration of finite structured input domains"},
 ],
 "checks": [],
 "notes": "All engines execute the real crate built from /repo's working tree; the oracle is a BTreeMap model, an independent decoder of the file format, or byte equality of two executions. Known findings: KNOWN_FINDINGS.txt. Exit codes: 0 held, 1 VIOLATION, 2 machinery failure (no verdict).",
 "not_applicable": [],
}
for pid in order:
    eng, lvl, tech, text, note = checks[pid]
    m["checks"].append({
      "property_id": pid,
      "quick_cmd": f"./check {pid} quick",
      "thorough_cmd": f"./check {pid} thorough",
      "evidence_file": f"/verif/evidence/{pid}.json",
      "replay_cmd_template": "./check --replay {path}",
      "engine": eng,
      "level_claimed": {"category": lvl, "text": text, "design_ref": f"DESIGN.md section 4, {pid}"},
      "level_note": note,
      "technique": tech,
    })
json.dump(m, open("/verif/MANIFEST.json","w"), indent=1)
print("checks:", len(m["checks"]))
